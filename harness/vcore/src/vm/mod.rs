//! E1: program VM.  A byte string is decoded into a small program (a tree of
//! op lists); executing it drives the real Stakker through its public API
//! while the lock-step monitor (monitor.rs) validates every observation.

pub mod exec;
pub mod logchk;
pub mod monitor;

use crate::shapes::SHAPES;
use crate::Cur;

pub type BodyIdx = u16;

#[derive(Clone, Copy, Debug, PartialEq, Eq)]
pub enum Ctx {
    Top,
    Item,
    Ready,
    Prep,
    NoCore,
}

#[derive(Clone, Debug)]
pub enum Op {
    /// submit a closure to the main queue. path: 0 Core::defer, 1 Deferrer::defer,
    /// 2 Actor::defer, 3 call!([core], |s| ..)
    Defer { path: u8, shape: u16, body: BodyIdx, nbag: u8 },
    /// n closures in a row (forces buffer growth and chaining)
    Burst { path: u8, shape: u16, n: u16 },
    Lazy { shape: u16, body: BodyIdx, nbag: u8 },
    Idle { body: BodyIdx, nbag: u8 },
    /// kind: 0 after, 1 timer_add, 2 timer_max_add, 3 timer_min_add; delay in ms (expiry lands on +0.5 ms)
    Timer { kind: u8, delay: u32, body: BodyIdx, nbag: u8 },
    TimerDel { k: u8 },
    /// style: 0 actor!(init), 1 actor_new!, 2 actor_in_slab! (Ready ctx only)
    NewActor { style: u8, shape: u16, body: BodyIdx, dest: u8 },
    /// via: 0 call!([a]) 1 call!([a, core]) 2 lazy!([a, core]) 3 idle!([a, core]) 4 after!(.., [a, core])
    Call { a: u8, via: u8, shape: u16, body: BodyIdx, nbag: u8 },
    PrepCall { a: u8, shape: u16, body: BodyIdx, nbag: u8 },
    /// kind: 0 Ret::new 1 ret_some_do! 2 ret_to! 3 ret_some_to! 4 ret_to! prep-style 5 ret_some_to! prep-style
    MakeRet { kind: u8, a: u8, shape: u16, body: BodyIdx },
    /// kind: 0 fwd_to!, 1 fwd_do!, 2 fwd_to! prep-style
    MakeFwd { kind: u8, a: u8, body: BodyIdx },
    UseRet { h: u8, some: bool },
    UseFwd { h: u8 },
    DropH { h: u8 },
    CloneActor { a: u8 },
    Owned { h: u8 },
    Anon { h: u8 },
    /// to: 0 global registers, 1 actor state (Ready / Prep-with-Some)
    MoveH { h: u8, to: u8 },
    TakeH { from: u8, h: u8 },
    MakeDropDefer { path: u8, shape: u16, body: BodyIdx, chain: u8 },
    MakeDeferrer,
    ForgetActor { a: u8 },
    /// how: 0 kill!(literal) 1 kill!(fmt) 2 kill!(error) 3 direct kill_str 4 direct kill_string 5 direct kill
    Kill { h: u8, how: u8, tag: u8 },
    Stop,
    /// kind: 0 fail!(literal) 1 fail!(fmt) 2 fail!(error)
    Fail { kind: u8, tag: u8 },
    /// Prep methods: return Some(value) at the end
    ReturnSome,
    /// dt in ms; back: pass an earlier instant
    Run { dt: u32, idle: bool, back: bool },
    Query { a: u8, body: BodyIdx },
    DropStakker,
    /// clone/drop storm on the reference types of actor a
    Storm { a: u8, n: u8 },
    /// Core::shutdown(Stopped) / shutdown_reason() (event-loop flag; must not affect time or queues)
    Shutdown { take: bool },
    /// (Ready context) send a call that does stop!() to the slab children of this actor selected
    /// by `cull` (bit i = i-th live child), then create `n` more with actor_in_slab! (body =
    /// immediate init) and stop those selected by `kill` the same way: slabs with dozens of
    /// children that shrink again
    SlabStorm { n: u8, kill: u64, cull: u64, shape: u16, body: BodyIdx, stop_body: BodyIdx },
}

#[derive(Clone, Debug, Default)]
pub struct Prog {
    pub bodies: Vec<Vec<Op>>,
    pub ctxs: Vec<Ctx>,
    /// bodies `[ReturnSome]` (Prep) and `[Stop]` (Ready) shared by all SlabStorm ops (allocated
    /// on first use)
    pub ready_body: Option<(BodyIdx, BodyIdx)>,
}

struct Dec<'a> {
    c: Cur<'a>,
    prog: Prog,
    budget: i32,
    focus: Focus,
    size: u32,
}

#[derive(Clone, Copy, PartialEq, Eq)]
enum Focus {
    Neutral,
    Queue,   // C01
    Calls,   // C02
    Term,    // C03
    Own,     // C04
    Ret,     // C05
    Lazy,    // C06
    Time,    // C15
    Release, // C16
}

fn focus_of(s: &str) -> Focus {
    match s {
        "C01" => Focus::Queue,
        "C02" => Focus::Calls,
        "C03" => Focus::Term,
        "C04" => Focus::Own,
        "C05" => Focus::Ret,
        "C06" => Focus::Lazy,
        "C15" => Focus::Time,
        "C16" => Focus::Release,
        _ => Focus::Neutral,
    }
}

impl<'a> Dec<'a> {
    fn shape(&mut self) -> u16 {
        let c = &mut self.c;
        // 0 maps to the smallest id-carrying shape class; large and over-aligned shapes on request
        match c.weighted(&[6, 3, 2, 2]) {
            0 => c.pick(24.min(SHAPES.len())) as u16,
            1 => c.pick16(SHAPES.len()) as u16,
            2 => {
                // big
                let i = c.pick16(SHAPES.len());
                if SHAPES[i].0 >= 200 {
                    i as u16
                } else {
                    (SHAPES.len() - 1 - c.pick(30.min(SHAPES.len()))) as u16
                }
            }
            _ => {
                // over-aligned
                let i = c.pick16(SHAPES.len());
                if SHAPES[i].1 >= 16 {
                    i as u16
                } else {
                    (SHAPES.len() - 1 - c.pick(100.min(SHAPES.len()))) as u16
                }
            }
        }
    }

    /// shape that can carry an item id (size >= 4)
    fn shape_id(&mut self) -> u16 {
        let mut s = self.shape();
        while SHAPES[s as usize].0 < 4 {
            s += 1;
        }
        s
    }

    fn body(&mut self, ctx: Ctx, depth: u32) -> BodyIdx {
        let idx = self.prog.bodies.len();
        self.prog.bodies.push(Vec::new());
        self.prog.ctxs.push(ctx);
        if depth > 7 || self.budget <= 0 || self.c.done() {
            return idx as BodyIdx;
        }
        let maxn = match ctx {
            Ctx::Top => 60,
            _ => {
                if depth <= 2 {
                    6
                } else {
                    3
                }
            }
        };
        let n = if ctx == Ctx::Top { maxn } else { self.c.pick(maxn + 1) };
        let mut ops = Vec::new();
        for _ in 0..n {
            if self.budget <= 0 || (ctx == Ctx::Top && self.c.done()) {
                break;
            }
            self.budget -= 1;
            if let Some(op) = self.op(ctx, depth) {
                let is_new_actor = matches!(op, Op::NewActor { .. });
                ops.push(op);
                // asynchronous initialisation pattern: calls made while the newest actor is
                // still in Prep, then a Prep-style call that completes it, then more calls
                // (a = 255 addresses the newest actor)
                if is_new_actor && ctx != Ctx::NoCore && depth < 5 && self.c.chance(match self.focus {
                    Focus::Calls => 150,
                    Focus::Term | Focus::Neutral | Focus::Ret => 60,
                    _ => 16,
                }) {
                    let n = 1 + self.c.pick(4);
                    for _ in 0..n {
                        let shape = self.shape_id();
                        let body = self.body(Ctx::Ready, depth + 2);
                        let nbag = self.nbag();
                        ops.push(Op::Call { a: 255, via: 0, shape, body, nbag });
                    }
                    if self.c.chance(60) {
                        ops.push(Op::Run { dt: 1, idle: false, back: false });
                    }
                    let shape = self.shape_id();
                    let body = self.body(Ctx::Prep, depth + 2);
                    ops.push(Op::PrepCall { a: 255, shape, body, nbag: 0 });
                    let shape = self.shape_id();
                    let body = self.body(Ctx::Ready, depth + 2);
                    ops.push(Op::Call { a: 255, via: 1, shape, body, nbag: 0 });
                    self.budget -= 3;
                }
            }
        }
        if ctx == Ctx::Prep && !ops.iter().any(|o| matches!(o, Op::ReturnSome)) && self.c.chance(120) {
            // initialisation completes in this step
            ops.push(Op::ReturnSome);
        }
        self.prog.bodies[idx] = ops;
        idx as BodyIdx
    }

    fn nbag(&mut self) -> u8 {
        if self.c.chance(70) {
            1 + self.c.pick(3) as u8
        } else {
            0
        }
    }

    fn delay(&mut self) -> u32 {
        let c = &mut self.c;
        match c.weighted(&[5, 3, 2, 1]) {
            0 => c.pick(20) as u32,
            1 => 20 + c.pick16(2000) as u32,
            2 => 2000 + c.pick16(60_000) as u32,
            _ => 60_000 + c.pick32(3_000_000) as u32,
        }
    }

    fn op(&mut self, ctx: Ctx, depth: u32) -> Option<Op> {
        // weights: one table per focus; zeroed entries for ops the context cannot do
        // index: 0 Defer 1 Burst 2 Lazy 3 Idle 4 Timer 5 TimerDel 6 NewActor 7 Call 8 PrepCall
        //        9 MakeRet 10 MakeFwd 11 UseRet 12 UseFwd 13 DropH 14 CloneActor 15 Owned 16 Anon
        //        17 MoveH 18 TakeH 19 MakeDropDefer 20 MakeDeferrer 21 ForgetActor 22 Kill
        //        23 Stop 24 Fail 25 ReturnSome 26 Run 27 Query 28 DropStakker 29 Storm 30 Shutdown
        //        31 SlabStorm
        let mut w: [u32; 32] = match self.focus {
            Focus::Neutral => [8, 1, 3, 2, 3, 1, 4, 8, 2, 3, 2, 3, 2, 3, 1, 1, 1, 2, 2, 2, 1, 1, 2, 2, 2, 3, 10, 1, 1, 1, 1, 1],
            Focus::Queue => [16, 4, 4, 2, 4, 1, 2, 4, 1, 1, 1, 1, 1, 2, 0, 0, 0, 1, 1, 5, 2, 0, 0, 1, 0, 2, 10, 0, 2, 0, 1, 0],
            Focus::Calls => [4, 0, 2, 1, 3, 0, 6, 14, 6, 2, 3, 2, 3, 2, 1, 0, 0, 1, 1, 1, 0, 0, 2, 3, 2, 6, 10, 1, 0, 0, 1, 1],
            Focus::Term => [3, 0, 1, 1, 2, 0, 6, 10, 4, 1, 1, 1, 1, 4, 0, 1, 0, 2, 1, 0, 0, 0, 8, 6, 6, 4, 10, 2, 0, 0, 1, 2],
            Focus::Own => [4, 0, 1, 1, 2, 0, 8, 6, 2, 1, 1, 1, 1, 8, 3, 5, 3, 5, 4, 0, 0, 2, 1, 2, 1, 5, 10, 2, 0, 2, 1, 4],
            Focus::Ret => [4, 0, 2, 2, 4, 3, 4, 8, 2, 12, 2, 8, 1, 6, 0, 0, 0, 4, 3, 0, 0, 0, 2, 2, 1, 3, 10, 0, 2, 0, 1, 0],
            Focus::Lazy => [8, 0, 10, 8, 4, 1, 2, 4, 1, 0, 0, 0, 0, 1, 0, 0, 0, 0, 0, 1, 0, 0, 0, 1, 0, 2, 14, 0, 0, 0, 1, 0],
            Focus::Time => [6, 0, 4, 4, 6, 1, 2, 4, 1, 0, 0, 0, 0, 1, 0, 0, 0, 0, 0, 0, 0, 0, 0, 1, 0, 2, 18, 1, 0, 0, 4, 0],
            Focus::Release => [6, 2, 2, 2, 3, 2, 5, 6, 2, 3, 3, 3, 3, 6, 4, 3, 2, 3, 3, 3, 3, 3, 2, 2, 1, 3, 10, 1, 2, 6, 1, 2],
        };
        let core_ctx = ctx != Ctx::NoCore;
        if !core_ctx {
            for i in [1usize, 2, 3, 4, 5, 6, 9, 10, 19, 20, 27, 30] {
                w[i] = 0;
            }
            w[7] /= 2; // calls from handlers use call!([actor], ..) only
        }
        if ctx != Ctx::Top {
            w[26] = 0;
            w[28] = 0;
            w[27] = 0;
            w[1] /= 2;
        }
        if ctx != Ctx::Ready && ctx != Ctx::Prep {
            w[23] = 0;
            w[24] = 0;
        }
        if ctx != Ctx::Ready {
            w[31] = 0;
        }
        if ctx != Ctx::Prep {
            w[25] = 0;
        } else {
            w[25] += 4;
        }
        if depth >= 5 {
            // stop nesting: only leaf ops
            for i in [0usize, 2, 3, 4, 6, 7, 8, 9, 10, 19, 27] {
                w[i] = w[i].min(1);
            }
        }
        let k = self.c.weighted(&w);
        let item_ctx = Ctx::Item;
        Some(match k {
            0 => {
                let path = if core_ctx { self.c.pick(4) as u8 } else { 1 + self.c.pick(2) as u8 };
                let shape = self.shape();
                let tiny = SHAPES[shape as usize].0 < 4;
                let body = if tiny { 0 } else { self.body(item_ctx, depth + 1) };
                Op::Defer { path, shape, body, nbag: if tiny { 0 } else { self.nbag() } }
            }
            1 => Op::Burst {
                path: self.c.pick(4) as u8,
                shape: self.shape(),
                n: match self.c.pick(4) {
                    0 => 2 + self.c.pick(12) as u16,
                    1 => 50 + self.c.pick(100) as u16,
                    2 => 120 + self.c.pick(16) as u16,
                    _ => 100 + self.c.pick16(if self.size == 0 { 200 } else { 500 }) as u16,
                },
            },
            2 => Op::Lazy { shape: self.shape_id(), body: self.body(item_ctx, depth + 1), nbag: self.nbag() },
            3 => Op::Idle { body: self.body(item_ctx, depth + 1), nbag: self.nbag() },
            4 => Op::Timer { kind: self.c.pick(4) as u8, delay: self.delay(), body: self.body(item_ctx, depth + 1), nbag: self.nbag() },
            5 => Op::TimerDel { k: self.c.u8() },
            6 => {
                let style = if ctx == Ctx::Ready { self.c.pick(3) as u8 } else { self.c.pick(2) as u8 };
                Op::NewActor { style, shape: self.shape_id(), body: self.body(Ctx::Prep, depth + 1), dest: self.c.pick(3) as u8 }
            }
            7 => Op::Call {
                a: self.c.u8(),
                via: if core_ctx { [0u8, 0, 1, 2, 3, 4][self.c.pick(6)] } else { 0 },
                shape: self.shape_id(),
                body: self.body(Ctx::Ready, depth + 1),
                nbag: self.nbag(),
            },
            8 => Op::PrepCall { a: self.c.u8(), shape: self.shape_id(), body: self.body(Ctx::Prep, depth + 1), nbag: self.nbag() },
            9 => {
                let kind = self.c.pick(6) as u8;
                let bctx = match kind {
                    0 | 1 => Ctx::NoCore,
                    4 | 5 => Ctx::Prep,
                    _ => Ctx::Ready,
                };
                Op::MakeRet { kind, a: self.c.u8(), shape: self.shape_id(), body: self.body(bctx, depth + 1) }
            }
            10 => {
                let kind = self.c.pick(3) as u8;
                let bctx = match kind {
                    0 => Ctx::Ready,
                    1 => Ctx::NoCore,
                    _ => Ctx::Prep,
                };
                Op::MakeFwd { kind, a: self.c.u8(), body: self.body(bctx, depth + 2) }
            }
            11 => Op::UseRet { h: self.c.u8(), some: self.c.bool() },
            12 => Op::UseFwd { h: self.c.u8() },
            13 => Op::DropH { h: self.c.u8() },
            14 => Op::CloneActor { a: self.c.u8() },
            15 => Op::Owned { h: self.c.u8() },
            16 => Op::Anon { h: self.c.u8() },
            17 => Op::MoveH { h: self.c.u8(), to: self.c.pick(2) as u8 },
            18 => Op::TakeH { from: self.c.pick(2) as u8, h: self.c.u8() },
            19 => Op::MakeDropDefer {
                path: 1 + self.c.pick(2) as u8,
                shape: self.shape_id(),
                body: self.body(item_ctx, depth + 2),
                chain: match self.c.pick(8) {
                    0..=4 => 0,
                    5 => 1 + self.c.pick(4) as u8,
                    6 => 5 + self.c.pick(60) as u8,
                    _ => 85 + self.c.pick(11) as u8,
                },
            },
            20 => Op::MakeDeferrer,
            21 => Op::ForgetActor { a: self.c.u8() },
            22 => Op::Kill {
                h: self.c.u8(),
                how: if ctx == Ctx::Top || ctx == Ctx::Item { self.c.pick(6) as u8 } else { self.c.pick(3) as u8 },
                tag: self.c.pick(4) as u8,
            },
            23 => Op::Stop,
            24 => Op::Fail { kind: self.c.pick(3) as u8, tag: self.c.pick(4) as u8 },
            25 => Op::ReturnSome,
            26 => {
                let (dt, back) = match self.c.weighted(&[10, 3, 2, 2, 1]) {
                    0 => (1 + self.c.pick(30) as u32, false),
                    1 => (0, false),
                    2 => (1 + self.c.pick16(5000) as u32, true),
                    3 => (60_001 + self.c.pick32(200_000) as u32, false),
                    _ => (30 + self.c.pick32(59_000) as u32, false),
                };
                Op::Run { dt, idle: self.c.chance(96), back }
            }
            27 => Op::Query { a: self.c.u8(), body: self.body(Ctx::Ready, depth + 2) },
            28 => Op::DropStakker,
            29 => Op::Storm { a: self.c.u8(), n: 1 + self.c.pick(40) as u8 },
            30 => Op::Shutdown { take: self.c.bool() },
            _ => {
                let (body, stop_body) = match self.prog.ready_body {
                    Some(b) => b,
                    None => {
                        let b = self.prog.bodies.len() as BodyIdx;
                        self.prog.bodies.push(vec![Op::ReturnSome]);
                        self.prog.ctxs.push(Ctx::Prep);
                        self.prog.bodies.push(vec![Op::Stop]);
                        self.prog.ctxs.push(Ctx::Ready);
                        self.prog.ready_body = Some((b, b + 1));
                        (b, b + 1)
                    }
                };
                let n = [3u8, 9, 17, 18, 20, 24, 33, 40][self.c.pick(8)];
                // about three quarters of the new children die at once; about half of the
                // survivors of earlier storms are culled
                let kill = self.c.u64() | self.c.u64();
                let cull = self.c.u64();
                Op::SlabStorm { n, kill, cull, shape: self.shape_id(), body, stop_body }
            }
        })
    }
}

pub fn decode(bytes: &[u8], focus: &str, size: u32) -> Prog {
    let mut d = Dec {
        c: Cur::new(bytes),
        prog: Prog::default(),
        budget: if size == 0 { 120 } else { 400 },
        focus: focus_of(focus),
        size,
    };
    // body 0 is the empty body (bursts, id-less closures); the top level is body 1
    d.prog.bodies.push(Vec::new());
    d.prog.ctxs.push(Ctx::Item);
    d.body(Ctx::Top, 0);
    d.prog
}

pub fn describe(prog: &Prog) -> Vec<String> {
    fn rec(prog: &Prog, b: BodyIdx, ind: usize, out: &mut Vec<String>) {
        for op in &prog.bodies[b as usize] {
            let pad = " ".repeat(ind);
            let (txt, sub): (String, Option<BodyIdx>) = match op {
                Op::Defer { path, shape, body, nbag } => (
                    format!(
                        "{} closure size {} align {} moving {} handle(s)",
                        ["Core::defer", "Deferrer::defer", "Actor::defer", "call!([core], |s| ..)"][*path as usize % 4],
                        SHAPES[*shape as usize].0,
                        SHAPES[*shape as usize].1,
                        nbag
                    ),
                    if SHAPES[*shape as usize].0 >= 4 { Some(*body) } else { None },
                ),
                Op::Burst { path, shape, n } => (
                    format!(
                        "burst of {} closures (size {} align {}) via path {}",
                        n,
                        SHAPES[*shape as usize].0,
                        SHAPES[*shape as usize].1,
                        path
                    ),
                    None,
                ),
                Op::Lazy { shape, body, nbag } => (
                    format!("lazy! closure size {} moving {} handle(s)", SHAPES[*shape as usize].0, nbag),
                    Some(*body),
                ),
                Op::Idle { body, nbag } => (format!("idle! closure moving {} handle(s)", nbag), Some(*body)),
                Op::Timer { kind, delay, body, nbag } => (
                    format!(
                        "{} +{}.5 ms moving {} handle(s)",
                        ["after", "timer_add", "timer_max_add", "timer_min_add"][*kind as usize % 4],
                        delay,
                        nbag
                    ),
                    Some(*body),
                ),
                Op::NewActor { style, shape, body, dest } => (
                    format!(
                        "{} (init capture size {}), owner -> {}",
                        ["actor!(.., Act::init(..))", "actor_new!", "actor_in_slab!"][*style as usize % 3],
                        SHAPES[*shape as usize].0,
                        ["local", "global registers", "actor state"][*dest as usize % 3]
                    ),
                    if *style != 1 { Some(*body) } else { None },
                ),
                Op::Call { a, via, shape, body, nbag } => (
                    format!(
                        "{} actor#{} method (capture size {} align {}) moving {} handle(s)",
                        ["call!([a])", "call!([a, core])"][*via as usize % 2],
                        a,
                        SHAPES[*shape as usize].0,
                        SHAPES[*shape as usize].1,
                        nbag
                    ),
                    Some(*body),
                ),
                Op::PrepCall { a, shape, body, nbag } => (
                    format!("call!([a], Act::prep(..)) actor#{} (capture size {}) moving {} handle(s)", a, SHAPES[*shape as usize].0, nbag),
                    Some(*body),
                ),
                Op::MakeRet { kind, a, body, .. } => (
                    format!(
                        "make {} (actor#{})",
                        ["Ret::new", "ret_some_do!", "ret_to!", "ret_some_to!", "ret_to! (prep)", "ret_some_to! (prep)"][*kind as usize % 6],
                        a
                    ),
                    Some(*body),
                ),
                Op::MakeFwd { kind, a, body } => (
                    format!("make {} (actor#{})", ["fwd_to!", "fwd_do!", "fwd_to! (prep)"][*kind as usize % 3], a),
                    Some(*body),
                ),
                Op::Query { a, body } => (format!("query! actor#{}", a), Some(*body)),
                Op::MakeDropDefer { path, shape, body, chain } => (
                    format!(
                        "make drop-handler token deferring (path {}) a closure size {} on drop, chain {}",
                        path,
                        SHAPES[*shape as usize].0,
                        chain
                    ),
                    Some(*body),
                ),
                o => (format!("{:?}", o), None),
            };
            out.push(format!("{}{}", pad, txt));
            if let Some(s) = sub {
                if out.len() < 400 {
                    rec(prog, s, ind + 2, out);
                }
            }
        }
    }
    let mut out = Vec::new();
    if prog.bodies.len() > 1 {
        rec(prog, 1, 0, &mut out);
    }
    out
}
