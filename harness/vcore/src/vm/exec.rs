//! Executor of VM programs against the real Stakker, reporting to the monitor.

use super::monitor::{AState, ActorId, Cause, IState, ItemId, Kind, Monitor, Viol, MQ, Q};
use super::{BodyIdx, Op, Prog};
use crate::shapes::{SHAPES, SMALL};
use crate::CaseReport;
use stakker::{
    actor, actor_in_slab, actor_new, call, fail, fwd_do, fwd_to, kill, lazy, ret_some_do, ret_some_to, ret_to, stop,
    Actor, ActorOwn, ActorOwnAnon, ActorOwnSlab, Core, Cx, Deferrer, FixedTimerKey, Fwd, MaxTimerKey, MinTimerKey,
    Ret, Stakker, StopCause, CX,
};
use std::cell::RefCell;
use std::error::Error;
use std::fmt;
use std::rc::Rc;
use std::time::{Duration, Instant};

// ---------------------------------------------------------------------------
// Harness context (thread-local: closures may be zero-sized)

#[derive(Clone, Copy, Debug)]
pub enum TKey {
    F(FixedTimerKey),
    X(MaxTimerKey),
    N(MinTimerKey),
}

pub struct ItemInfo {
    pub body: BodyIdx,
    pub bag: Option<Vec<Handle>>,
    /// tag of a ret_to!-style Ret: which Ret it belongs to
    pub ret_of: Option<u32>,
    /// anonymous (id-less) closure: shape index
    pub anon: Option<u16>,
    /// drop-handler chain still to create when this item's bag is built
    pub chain: u8,
}

pub struct RetInfo {
    pub kind: u8,
    pub body: BodyIdx,
    pub tag: Option<ItemId>,
    /// 0 pending, 1 invoked/delivered Some, 2 invoked/abandoned None
    pub state: u8,
    pub sent: bool,
}

#[derive(Default, Clone, Debug)]
pub struct Stats {
    pub grew_bytes: u64,
    pub max_pending_bytes: u64,
    pub pending_bytes: u64,
    pub crossed_recreate: u32,
    pub stakker_dropped_pending: u32,
    pub async_init_calls_before_ready: u32,
    pub calls_after_ready: u32,
    pub rets_abandoned_special: u32,
    pub clone_drop_ops: u32,
    pub weak_freed_after_term: u32,
    pub actors: u32,
    pub causes_seen: [u32; 4],
    pub shared_owner_drops: u32,
    pub slab_children: u32,
    pub max_slab: u32,
    pub slab_storm_kills: u32,
    pub runs: u32,
    pub queries: u32,
}

pub struct Hx {
    pub mon: Monitor,
    pub rep: CaseReport,
    pub dead: bool,
    pub prog: Rc<Prog>,
    pub trace: bool,
    pub strict: bool,
    pub matrix: bool,
    pub info: Vec<ItemInfo>,
    pub gbag: Vec<Handle>,
    pub arefs: Vec<Option<Actor<Act>>>,
    pub rets: Vec<RetInfo>,
    pub timer_keys: Vec<(ItemId, TKey)>,
    pub msgs: Vec<u8>,
    pub live_handles: i64,
    /// current virtual time in half-milliseconds since start
    pub now_hm: i64,
    pub t0: Instant,
    pub hash: u64,
    pub nev: u64,
    pub ret_bracket: Vec<(u32, bool)>,
    pub stats: Stats,
    pub last_recreate_hm: i64,
    pub fwd_bodies: Vec<(BodyIdx, Option<ActorId>, bool)>,
    pub op_count: u64,
    pub weak_backref: bool,
    pub logs: super::logchk::LogState,
    pub seed: u64,
}

thread_local! {
    static LOG_SEED: std::cell::Cell<u64> = const { std::cell::Cell::new(0) };
    static HX: RefCell<Option<Box<Hx>>> = const { RefCell::new(None) };
    static EPOCH: Instant = Instant::now() + Duration::from_secs(50_000);
}

/// Access the harness context.  Never call into stakker or drop handles inside `f`.
#[inline]
pub fn hx<R>(f: impl FnOnce(&mut Hx) -> R) -> R {
    HX.with(|c| {
        let mut b = c.borrow_mut();
        f(b.as_mut().expect("harness context not installed"))
    })
}

fn hx_installed() -> bool {
    HX.with(|c| c.try_borrow().map(|b| b.is_some()).unwrap_or(true))
}

impl Hx {
    /// Record the result of a monitor call
    fn chk(&mut self, r: Result<(), Viol>) {
        if let Err(v) = r {
            if !self.dead {
                self.dead = true;
                if self.trace {
                    self.rep.trace.push(format!("!! VIOLATION [{}] {}", v.rule, v.msg));
                }
                self.rep.viol(&v.props, v.rule, v.msg);
            }
        }
    }
    fn viol(&mut self, props: &[&'static str], rule: &'static str, msg: String) {
        self.chk(Err(Viol {
            props: props.to_vec(),
            rule,
            msg,
        }));
    }
    /// Observable event: goes into the trace hash compared across feature sets (C18)
    fn ev(&mut self, kind: u8, a: u64, b: u64) {
        // After the Stakker is gone, when and whether leftovers are *dropped* differs per deferrer
        // by documented design, so in matrix mode nothing after that point is part of the compared trace;
        // that leftovers never *run* is enforced by the monitor rule ran-after-stakker-drop (C01, C18).
        if self.matrix && self.mon.gone {
            return;
        }
        self.nev += 1;
        let mut h = self.hash ^ (kind as u64).wrapping_mul(0x9E3779B97F4A7C15);
        h = h.wrapping_mul(0x100000001b3) ^ a;
        h = h.wrapping_mul(0x100000001b3) ^ b;
        self.hash = h.wrapping_mul(0x100000001b3);
    }
    fn tr(&mut self, f: impl FnOnce() -> String) {
        if self.trace && self.rep.trace.len() < 3000 {
            let depth = self.mon.stack.len();
            let s = f();
            self.rep.trace.push(format!("{}{}", "  ".repeat(depth), s));
        }
    }
    fn new_item(&mut self, kind: Kind, q: Q, body: BodyIdx) -> ItemId {
        let id = self.mon.new_item(kind, q);
        debug_assert_eq!(id as usize, self.info.len());
        self.info.push(ItemInfo {
            body,
            bag: None,
            ret_of: None,
            anon: None,
            chain: 0,
        });
        id
    }
    fn actor_ref(&self, pick: u8) -> Option<(ActorId, Actor<Act>)> {
        let live: Vec<usize> = self
            .arefs
            .iter()
            .enumerate()
            .filter(|(_, a)| a.is_some())
            .map(|(i, _)| i)
            .collect();
        if live.is_empty() {
            return None;
        }
        let i = live[(pick as usize * live.len()) >> 8];
        Some((i as ActorId, self.arefs[i].as_ref().unwrap().clone()))
    }
}

pub fn inst_hm(hm: i64) -> Instant {
    EPOCH.with(|e| *e) + Duration::from_micros(hm as u64 * 500)
}

fn hm_of(i: Instant) -> i64 {
    let d = i.duration_since(EPOCH.with(|e| *e));
    // exact on the half-ms grid; anything else shows up as a mismatch
    let us = d.as_micros() as i64;
    if us % 500 == 0 {
        us / 500
    } else {
        -us
    }
}

// ---------------------------------------------------------------------------
// Captures

#[inline]
fn pat(id: u32, i: usize) -> u8 {
    let h = id.wrapping_mul(2654435761).rotate_left((i as u32 % 4) * 8);
    (h as u8) ^ (i as u8) ^ ((i >> 8) as u8).wrapping_mul(37)
}

/// Closure capture of exactly S bytes, alignment of A.  Carries the item id in
/// its first four bytes when S >= 4; everything else about the item lives in
/// the harness context.
#[repr(C)]
pub struct ICap<const S: usize, A: Copy + 'static> {
    bytes: [u8; S],
    al: [A; 0],
}

impl<const S: usize, A: Copy + 'static> ICap<S, A> {
    #[inline]
    pub fn new(id: u32) -> Self {
        let mut bytes = [0u8; S];
        for (i, b) in bytes.iter_mut().enumerate() {
            *b = pat(id, i);
        }
        if S >= 4 {
            bytes[0..4].copy_from_slice(&id.to_le_bytes());
        }
        Self { bytes, al: [] }
    }
    fn id(&self) -> Option<u32> {
        if S >= 4 {
            Some(u32::from_le_bytes(self.bytes[0..4].try_into().unwrap()))
        } else {
            None
        }
    }
    fn intact(&self) -> bool {
        match self.id() {
            Some(id) => (4..S).all(|i| self.bytes[i] == pat(id, i)),
            None => true,
        }
    }
    /// Take the id out without running Drop
    fn consume(self) -> (Option<u32>, bool, u8) {
        let r = (self.id(), self.intact(), if S > 0 { self.bytes[0] } else { 0 });
        std::mem::forget(self);
        r
    }
    pub fn run(self, s: &mut Stakker) {
        let (id, ok, b0) = self.consume();
        match id {
            Some(id) => {
                check_intact(id, ok, S, "run");
                run_item(&mut Env::Item(s), id);
            }
            None => run_anon(s, S, std::mem::align_of::<A>(), b0),
        }
    }
}

fn check_intact(id: u32, ok: bool, size: usize, when: &str) {
    if !ok {
        hx(|h| {
            h.viol(
                &["C01", "C16"],
                "capture-corrupted",
                format!("captured data of item i{} (size {}) is corrupted when {}", id, size, when),
            )
        });
    }
}

impl<const S: usize, A: Copy + 'static> Drop for ICap<S, A> {
    fn drop(&mut self) {
        if !hx_installed() {
            return;
        }
        match self.id() {
            Some(id) => {
                check_intact(id, self.intact(), S, "dropped un-run");
                item_dropped(id);
            }
            None => anon_dropped(S, std::mem::align_of::<A>()),
        }
    }
}

/// Message type for Ret/Fwd.  Optionally carries an item (Fwd deliveries).
pub struct Msg {
    mid: u32,
    item: Option<ItemId>,
    _canary: Box<u32>,
}

impl Msg {
    fn new(item: Option<ItemId>) -> Self {
        let mid = hx(|h| {
            h.msgs.push(0);
            (h.msgs.len() - 1) as u32
        });
        Self {
            mid,
            item,
            _canary: Box::new(mid),
        }
    }
}

impl Drop for Msg {
    fn drop(&mut self) {
        if !hx_installed() {
            return;
        }
        if let Some(id) = self.item.take() {
            item_dropped(id);
        }
        let mid = self.mid;
        hx(|h| {
            if h.msgs[mid as usize] != 0 {
                h.viol(&["C16"], "msg-dropped-twice", format!("message m{} dropped twice", mid));
            }
            h.msgs[mid as usize] = 1;
            h.ev(20, mid as u64, 0);
        });
    }
}

// ---------------------------------------------------------------------------
// Handles (wrappers that tell the monitor what the program does)

pub struct OwnW {
    o: Option<ActorOwn<Act>>,
    aid: ActorId,
}
pub struct AnonW {
    o: Option<ActorOwnAnon>,
    aid: ActorId,
}
pub struct ActorW {
    a: Actor<Act>,
    aid: ActorId,
}
pub struct RetW {
    r: Option<Ret<Msg>>,
    rid: u32,
    aid: Option<ActorId>,
}
pub struct FwdW {
    f: Fwd<Msg>,
    fid: u32,
    aid: Option<ActorId>,
}
pub struct DropDeferW {
    path: u8,
    shape: u16,
    body: BodyIdx,
    chain: u8,
    def: Deferrer,
    actor: Option<Actor<Act>>,
    aid: Option<ActorId>,
}

pub enum Handle {
    Own(OwnW),
    Anon(AnonW),
    Actor(ActorW),
    Ret(RetW),
    Fwd(FwdW),
    Def(Deferrer),
    DropDefer(DropDeferW),
}

impl Handle {
    fn name(&self) -> String {
        match self {
            Handle::Own(o) => format!("ActorOwn(a{})", o.aid),
            Handle::Anon(o) => format!("ActorOwnAnon(a{})", o.aid),
            Handle::Actor(o) => format!("Actor(a{})", o.aid),
            Handle::Ret(r) => format!("Ret(r{})", r.rid),
            Handle::Fwd(f) => format!("Fwd(f{})", f.fid),
            Handle::Def(_) => "Deferrer".into(),
            Handle::DropDefer(d) => format!("DropToken(chain {})", d.chain),
        }
    }
}

fn own_w(o: ActorOwn<Act>, aid: ActorId) -> Handle {
    Handle::Own(OwnW { o: Some(o), aid })
}

impl Drop for OwnW {
    fn drop(&mut self) {
        let aid = self.aid;
        hx(|h| {
            if !h.dead {
                if h.mon.actors[aid as usize].owners >= 2 {
                    h.stats.shared_owner_drops += 1;
                }
                h.mon.owner_dec(aid);
            }
            h.tr(|| format!("drop ActorOwn(a{})", aid));
        });
        drop(self.o.take());
    }
}

impl Drop for AnonW {
    fn drop(&mut self) {
        let aid = self.aid;
        hx(|h| {
            if !h.dead {
                h.mon.owner_dec(aid);
            }
            h.tr(|| format!("drop ActorOwnAnon(a{})", aid));
        });
        drop(self.o.take());
    }
}

impl Drop for RetW {
    fn drop(&mut self) {
        if let Some(r) = self.r.take() {
            let rid = self.rid;
            let tag = hx(|h| {
                h.tr(|| format!("drop Ret r{} unused", rid));
                h.mon.abandon_depth += 1;
                h.ret_bracket.push((rid, false));
                let ri = &h.rets[rid as usize];
                let (kind, tag) = (ri.kind, ri.tag);
                if h.mon.dropping || h.mon.gone || !h.mon.in_run {
                    h.stats.rets_abandoned_special += 1;
                }
                match (kind, tag) {
                    // ret_to!: delivers None through the main queue
                    (2, Some(t)) | (4, Some(t)) => {
                        if !h.dead {
                            h.mon.submit_main(t);
                        }
                        None
                    }
                    (3, Some(t)) | (5, Some(t)) => Some(t),
                    _ => None,
                }
            });
            drop(r);
            hx(|h| {
                h.mon.abandon_depth -= 1;
                h.ret_bracket.pop();
                let ri = &mut h.rets[rid as usize];
                let kind = ri.kind;
                let st = ri.state;
                if kind == 0 && st != 2 {
                    h.viol(
                        &["C05"],
                        "ret-drop-no-none",
                        format!("Ret r{} was dropped but its handler was not invoked with None at that moment (state {})", rid, st),
                    );
                }
                if let Some(t) = tag {
                    if !h.dead && h.mon.items[t as usize].st != IState::Dropped {
                        h.viol(
                            &["C05", "C16"],
                            "ret-some-tag-leak",
                            format!("ret_some_to! Ret r{} was dropped but its captured arguments (i{}) were not", rid, t),
                        );
                    }
                }
                if kind != 0 {
                    h.rets[rid as usize].state = 2;
                }
            });
        }
    }
}

impl Drop for DropDeferW {
    fn drop(&mut self) {
        // A Drop handler with no Core access: defers a closure through a Deferrer / Actor::defer
        let (path, shape, body, chain) = (self.path, self.shape, self.body, self.chain);
        let id = hx(|h| {
            let id = h.new_item(Kind::Closure, Q::Main, body);
            h.info[id as usize].chain = chain;
            h.tr(|| format!("drop handler defers i{} (chain left {})", id, chain));
            if !h.dead {
                h.mon.submit_main(id);
            }
            h.ev(21, id as u64, 0);
            id
        });
        // the deferred closure carries the next link of the chain
        if chain > 0 {
            let next = Handle::DropDefer(DropDeferW {
                path,
                shape,
                body,
                chain: chain - 1,
                def: self.def.clone(),
                actor: self.actor.clone(),
                aid: self.aid,
            });
            hx(|h| h.info[id as usize].bag = Some(vec![next]));
        }
        match (&self.actor, path) {
            (Some(a), 2) => sub_actor_defer(a, shape, id),
            _ => sub_deferrer(&self.def, shape, id),
        }
    }
}

// ---------------------------------------------------------------------------
// Errors carrying an identity

#[derive(Debug)]
pub struct TagErr(pub u32);
impl fmt::Display for TagErr {
    fn fmt(&self, f: &mut fmt::Formatter<'_>) -> fmt::Result {
        write!(f, "tagerr{}", self.0)
    }
}
impl Error for TagErr {}

fn cause_of(c: &StopCause) -> Cause {
    fn tag(e: &Box<dyn Error>) -> u32 {
        if let Some(t) = e.downcast_ref::<TagErr>() {
            return 200 + t.0;
        }
        let s = format!("{}", e);
        if let Some(n) = s.strip_prefix("lit") {
            return n.parse().unwrap_or(999);
        }
        if let Some(n) = s.strip_prefix("fmt") {
            return 100 + n.parse().unwrap_or(899);
        }
        9999
    }
    match c {
        StopCause::Stopped => Cause::Stopped,
        StopCause::Failed(e) => Cause::Failed(tag(e)),
        StopCause::Killed(e) => Cause::Killed(tag(e)),
        StopCause::Dropped => Cause::Dropped,
        StopCause::Lost => Cause::Failed(7777),
    }
}

// ---------------------------------------------------------------------------
// The actor type

pub struct Act {
    pub aid: ActorId,
    pub bag: Vec<Handle>,
    pub slab: ActorOwnSlab<Act>,
}

impl Drop for Act {
    fn drop(&mut self) {
        let aid = self.aid;
        hx(|h| {
            h.tr(|| format!("value of a{} dropped", aid));
            h.ev(10, aid as u64, 0);
            if !h.dead {
                let r = h.mon.value_dropped(aid);
                h.chk(r);
            }
        });
        let bag = std::mem::take(&mut self.bag);
        drop(bag);
        if !self.slab.is_empty() {
            hx(|h| {
                if !h.dead {
                    h.mon.slab_released(aid);
                }
            });
        }
    }
}

impl Act {
    pub fn init<const S: usize, A: Copy + 'static>(cx: CX![], cap: ICap<S, A>) -> Option<Self> {
        let (id, ok, _) = cap.consume();
        let id = id.unwrap();
        check_intact(id, ok, S, "run");
        let mut fr = Frame::default();
        run_item_fr(&mut Env::Prep(cx), id, &mut fr);
        if fr.ret_some {
            let aid = fr.aid.unwrap();
            Some(Act {
                aid,
                bag: std::mem::take(&mut fr.state_bag),
                slab: ActorOwnSlab::new(),
            })
        } else {
            None
        }
    }
    pub fn m<const S: usize, A: Copy + 'static>(&mut self, cx: CX![], cap: ICap<S, A>) {
        let (id, ok, _) = cap.consume();
        let id = id.unwrap();
        check_intact(id, ok, S, "run");
        run_item(&mut Env::Ready(self, cx), id);
    }
    pub fn on_ret<const S: usize, A: Copy + 'static>(&mut self, cx: CX![], tag: ICap<S, A>, m: Option<Msg>) {
        let (id, ok, _) = tag.consume();
        let id = id.unwrap();
        check_intact(id, ok, S, "delivered");
        ret_delivered(id, m.is_some());
        run_item(&mut Env::Ready(self, cx), id);
        drop(m);
    }
    pub fn on_ret_some<const S: usize, A: Copy + 'static>(&mut self, cx: CX![], tag: ICap<S, A>, m: Msg) {
        let (id, ok, _) = tag.consume();
        let id = id.unwrap();
        check_intact(id, ok, S, "delivered");
        ret_delivered(id, true);
        run_item(&mut Env::Ready(self, cx), id);
        drop(m);
    }
    pub fn on_ret_prep<const S: usize, A: Copy + 'static>(cx: CX![], tag: ICap<S, A>, m: Option<Msg>) -> Option<Self> {
        let (id, ok, _) = tag.consume();
        let id = id.unwrap();
        check_intact(id, ok, S, "delivered");
        ret_delivered(id, m.is_some());
        let mut fr = Frame::default();
        run_item_fr(&mut Env::Prep(cx), id, &mut fr);
        drop(m);
        if fr.ret_some {
            Some(Act {
                aid: fr.aid.unwrap(),
                bag: std::mem::take(&mut fr.state_bag),
                slab: ActorOwnSlab::new(),
            })
        } else {
            None
        }
    }
    pub fn on_ret_some_prep<const S: usize, A: Copy + 'static>(cx: CX![], tag: ICap<S, A>, m: Msg) -> Option<Self> {
        Self::on_ret_prep(cx, tag, Some(m))
    }
    pub fn on_fwd_prep(cx: CX![], _fid: u32, mut m: Msg) -> Option<Self> {
        let mut fr = Frame::default();
        if let Some(id) = m.item.take() {
            run_item_fr(&mut Env::Prep(cx), id, &mut fr);
        }
        drop(m);
        if fr.ret_some {
            Some(Act {
                aid: fr.aid.unwrap(),
                bag: std::mem::take(&mut fr.state_bag),
                slab: ActorOwnSlab::new(),
            })
        } else {
            None
        }
    }
    pub fn on_fwd(&mut self, cx: CX![], _fid: u32, mut m: Msg) {
        if let Some(id) = m.item.take() {
            run_item(&mut Env::Ready(self, cx), id);
        }
        drop(m);
    }
}

fn ret_delivered(tag: ItemId, some: bool) {
    hx(|h| {
        if let Some(rid) = h.info[tag as usize].ret_of {
            let ri = &mut h.rets[rid as usize];
            let (sent, st, kind) = (ri.sent, ri.state, ri.kind);
            if st == 1 && kind != 3 || st == 2 && some {
                // state 2 is set when the Ret is dropped unused; a later Some delivery is wrong
            }
            if some != sent {
                h.viol(
                    &["C05"],
                    "ret-delivery-mismatch",
                    format!("Ret r{} target method called with {} but ret() was {}", rid, if some { "Some" } else { "None" }, if sent { "called" } else { "not called" }),
                );
            }
            h.rets[rid as usize].state = if some { 1 } else { 2 };
            h.ev(22, rid as u64, some as u64);
        }
    });
}

// ---------------------------------------------------------------------------
// Execution environment

pub enum Env<'a, 'c> {
    Top(&'a mut Stakker),
    Item(&'a mut Stakker),
    Ready(&'a mut Act, &'a mut Cx<'c, Act>),
    Prep(&'a mut Cx<'c, Act>),
    NoCore,
}

impl<'a, 'c> Env<'a, 'c> {
    fn core(&mut self) -> Option<&mut Core> {
        match self {
            Env::Top(s) | Env::Item(s) => Some(&mut **s),
            Env::Ready(_, cx) => Some(&mut **cx),
            Env::Prep(cx) => Some(&mut **cx),
            Env::NoCore => None,
        }
    }
    fn stakker(&mut self) -> Option<&mut Stakker> {
        match self {
            Env::Top(s) | Env::Item(s) => Some(&mut **s),
            _ => None,
        }
    }
    fn now_hm(&mut self) -> i64 {
        match self.core() {
            Some(c) => hm_of(c.now()),
            None => hx(|h| h.mon.now),
        }
    }
}

#[derive(Default)]
pub struct Frame {
    pub state_bag: Vec<Handle>,
    pub ret_some: bool,
    pub aid: Option<ActorId>,
}

// ---------------------------------------------------------------------------
// Items: start / end / dropped

fn sample_zombies(h: &mut Hx, when: &str) {
    if h.dead {
        return;
    }
    for i in 0..h.arefs.len() {
        if let Some(a) = &h.arefs[i] {
            let z = a.is_zombie();
            let mz = h.mon.actors[i].st == AState::Zombie;
            if z != mz {
                h.viol(
                    &["C03"],
                    "is-zombie-mismatch",
                    format!("is_zombie() of a{} is {} {} but the actor is {:?} in the model", i, z, when, h.mon.actors[i].st),
                );
                return;
            }
        }
    }
}

pub fn run_item(env: &mut Env, id: ItemId) {
    let mut fr = Frame::default();
    run_item_fr(env, id, &mut fr);
}

pub fn run_item_fr(env: &mut Env, id: ItemId, fr: &mut Frame) {
    if hx(|h| h.mon.gone) {
        // executed by the later Stakker of the end-of-case flush: only whether it may run at all
        // is checked; its body is not executed
        let bag = hx(|h| {
            h.tr(|| format!("> i{} runs in a later Stakker", id));
            if !h.dead {
                let r = h.mon.item_start_second(id);
                h.chk(r);
            }
            h.info[id as usize].bag.take()
        });
        drop(bag);
        let _ = fr;
        return;
    }
    let now_seen = env.now_hm();
    let (body, bag) = hx(|h| {
        let (k0, q0) = (h.mon.items[id as usize].kind, h.mon.items[id as usize].q);
        h.tr(|| format!("> i{} starts ({:?}, {:?}) now={}", id, k0, q0, now_seen as f64 / 2.0));
        h.ev(1, id as u64, now_seen as u64);
        if !h.dead {
            let r = h.mon.item_start(id, now_seen);
            h.chk(r);
            sample_zombies(h, "at an item start");
            match h.mon.items[id as usize].kind {
                Kind::Call(a) | Kind::PrepCall(a) => fr.aid = Some(a),
                _ => {}
            }
            if let Kind::Call(a) = h.mon.items[id as usize].kind {
                if h.mon.actors[a as usize].had_value {
                    h.stats.calls_after_ready += 1;
                }
            }
        } else if let Kind::Call(a) | Kind::PrepCall(a) = h.mon.items[id as usize].kind {
            fr.aid = Some(a);
        }
        let info = &mut h.info[id as usize];
        (info.body, info.bag.take())
    });
    let mut bag = bag.unwrap_or_default();
    exec_body(env, body, &mut bag, fr);
    // captures are released at the end of the closure body
    drop(bag);
    hx(|h| {
        h.tr(|| format!("< i{} ends", id));
        if !h.dead {
            let r = h.mon.item_end(id, fr.ret_some);
            h.chk(r);
        }
    });
}

fn run_anon(s: &mut Stakker, size: usize, align: usize, b0: u8) {
    if hx(|h| h.mon.gone) {
        hx(|h| {
            if h.dead {
                return;
            }
            let found = (0..h.info.len()).find(|i| {
                h.info[*i].anon.map(|sh| SHAPES[sh as usize]) == Some((size, align)) && h.mon.items[*i].st == IState::Pending
            });
            match found {
                Some(i) => {
                    let r = h.mon.item_start_second(i as ItemId);
                    h.chk(r);
                }
                None => h.viol(&["C01"], "order", "an id-less closure ran in a later Stakker but none is pending".to_string()),
            }
        });
        return;
    }
    // An id-less closure: it must be the next unprocessed main-queue entry
    let now_seen = hm_of(s.now());
    hx(|h| {
        if h.dead {
            return;
        }
        // skip silent entries by asking for a start of whatever is at the front
        let front = next_anon_front(h);
        match front {
            Some(id) if h.info[id as usize].anon.map(|sh| SHAPES[sh as usize]) == Some((size, align)) => {
                if size > 0 && b0 != pat(id, 0) {
                    h.viol(&["C01", "C16"], "capture-corrupted", format!("captured byte of id-less closure i{} is corrupted", id));
                }
                h.tr(|| format!("> i{} (id-less closure size {} align {}) runs", id, size, align));
                h.ev(1, id as u64, now_seen as u64);
                let r = h.mon.item_start(id, now_seen);
                h.chk(r);
                if !h.dead {
                    let r = h.mon.item_end(id, false);
                    h.chk(r);
                }
            }
            o => h.viol(
                &["C01"],
                "order",
                format!("an id-less closure (size {} align {}) ran but the next main-queue entry in the model is {:?}", size, align, o),
            ),
        }
    });
}

/// First Item entry of the abstract main queue that is a pending closure
fn next_anon_front(h: &mut Hx) -> Option<ItemId> {
    for e in h.mon.main.iter() {
        match e {
            MQ::Item(i) => {
                let it = &h.mon.items[*i as usize];
                match it.kind {
                    Kind::Closure => return Some(*i),
                    Kind::Call(a) if h.mon.actors[a as usize].st == AState::Prep => continue,
                    _ => return Some(*i),
                }
            }
            MQ::Timers(t) if !t.is_empty() => return None,
            _ => continue,
        }
    }
    None
}

fn anon_dropped(size: usize, align: usize) {
    hx(|h| {
        if h.dead {
            return;
        }
        // find the first pending id-less item of that shape
        let found = h.mon.main.iter().find_map(|e| match e {
            MQ::Item(i)
                if h.info[*i as usize].anon.map(|sh| SHAPES[sh as usize]) == Some((size, align))
                    && h.mon.items[*i as usize].st == IState::Pending =>
            {
                Some(*i)
            }
            _ => None,
        });
        match found {
            Some(id) => {
                h.tr(|| format!("i{} (id-less closure) dropped un-run", id));
                h.ev(2, id as u64, 0);
                let r = h.mon.item_dropped(id);
                h.chk(r);
            }
            None => {
                // after the Stakker is gone they may already have been accounted for
                let any = h.info.iter().enumerate().find(|(i, inf)| {
                    inf.anon.map(|sh| SHAPES[sh as usize]) == Some((size, align)) && h.mon.items[*i].st == IState::Pending
                });
                match any {
                    Some((i, _)) => {
                        let r = h.mon.item_dropped(i as ItemId);
                        h.chk(r);
                    }
                    None => h.viol(
                        &["C01", "C16"],
                        "dropped-twice",
                        format!("an id-less closure (size {} align {}) was dropped but none is pending", size, align),
                    ),
                }
            }
        }
    });
}

pub fn item_dropped(id: ItemId) {
    let bag = hx(|h| {
        h.tr(|| format!("i{} dropped un-run", id));
        h.ev(2, id as u64, 0);
        if !h.dead {
            // C02(c): inside the drop of a discarded call the target reads as a Zombie
            if let Kind::Call(a) = h.mon.items[id as usize].kind {
                if h.mon.items[id as usize].st != IState::Latent && !h.mon.dropping && !h.mon.gone {
                    if let Some(ar) = h.arefs.get(a as usize).and_then(|x| x.as_ref()) {
                        if !ar.is_zombie() && h.mon.items[id as usize].q == Q::Main {
                            h.viol(
                                &["C02"],
                                "discarded-not-zombie",
                                format!("call i{} to a{} was discarded although is_zombie() is false at that moment", id, a),
                            );
                        }
                    }
                }
            }
            let r = h.mon.item_dropped(id);
            h.chk(r);
            h.mon.item_drop_begin(id);
        }
        h.info[id as usize].bag.take()
    });
    drop(bag);
    hx(|h| {
        if !h.dead {
            h.mon.item_drop_end(id);
        }
    });
}

// ---------------------------------------------------------------------------
// Submission helpers, monomorphised over the shape family

macro_rules! m_core_defer {
    ($s:expr, $a:ty, $core:expr, $id:expr) => {{
        let cap = ICap::<$s, $a>::new($id);
        $core.defer(move |s| cap.run(s));
    }};
}
macro_rules! m_deferrer {
    ($s:expr, $a:ty, $d:expr, $id:expr) => {{
        let cap = ICap::<$s, $a>::new($id);
        $d.defer(move |s| cap.run(s));
    }};
}
macro_rules! m_call_core {
    ($s:expr, $a:ty, $core:expr, $id:expr) => {{
        let cap = ICap::<$s, $a>::new($id);
        call!([$core], |s| cap.run(s));
    }};
}
macro_rules! m_lazy {
    ($s:expr, $a:ty, $core:expr, $id:expr) => {{
        let cap = ICap::<$s, $a>::new($id);
        lazy!([$core], |s| cap.run(s));
    }};
}
macro_rules! m_call {
    ($s:expr, $a:ty, $actor:expr, $core:expr, $id:expr) => {{
        let cap = ICap::<$s, $a>::new($id);
        match $core {
            Some(core) => call!([$actor, core], m(cap)),
            None => call!([$actor], m(cap)),
        }
    }};
}
macro_rules! m_prep {
    ($s:expr, $a:ty, $actor:expr, $id:expr) => {{
        let cap = ICap::<$s, $a>::new($id);
        call!([$actor], Act::init(cap));
    }};
}
macro_rules! m_ret_to {
    ($s:expr, $a:ty, $actor:expr, $id:expr, $kind:expr) => {{
        let tag = ICap::<$s, $a>::new($id);
        match $kind {
            2 => ret_to!([$actor], on_ret(tag) as (Msg)),
            3 => ret_some_to!([$actor], on_ret_some(tag) as (Msg)),
            5 => ret_some_to!([$actor], Act::on_ret_some_prep(tag) as (Msg)),
            _ => ret_to!([$actor], Act::on_ret_prep(tag) as (Msg)),
        }
    }};
}

fn note_push(shape: u16) {
    hx(|h| {
        let (s, a) = SHAPES[shape as usize];
        h.stats.pending_bytes += (8 + s + if a > 8 { a } else { 0 }) as u64;
        if h.stats.pending_bytes > h.stats.max_pending_bytes {
            h.stats.max_pending_bytes = h.stats.pending_bytes;
        }
    });
}

#[inline(never)]
fn sub_core_defer(core: &mut Core, shape: u16, id: ItemId) {
    note_push(shape);
    crate::for_shape!(shape as usize, m_core_defer, core, id)
}
#[inline(never)]
fn sub_deferrer(d: &Deferrer, shape: u16, id: ItemId) {
    note_push(shape);
    crate::for_shape!(shape as usize, m_deferrer, d, id)
}
#[inline(never)]
fn sub_actor_defer(a: &Actor<Act>, shape: u16, id: ItemId) {
    note_push(shape);
    crate::for_shape!(shape as usize, m_deferrer, a, id)
}
#[inline(never)]
fn sub_call_core(core: &mut Core, shape: u16, id: ItemId) {
    note_push(shape);
    crate::for_shape!(shape as usize, m_call_core, core, id)
}
#[inline(never)]
fn sub_lazy(core: &mut Core, shape: u16, id: ItemId) {
    crate::for_shape!(shape as usize, m_lazy, core, id)
}
#[inline(never)]
fn sub_call(actor: &Actor<Act>, core: Option<&mut Core>, shape: u16, id: ItemId) {
    note_push(shape);
    crate::for_shape!(shape as usize, m_call, actor, core, id)
}
#[inline(never)]
fn sub_prep(actor: &Actor<Act>, shape: u16, id: ItemId) {
    crate::for_shape_small!(shape as usize, m_prep, actor, id)
}
#[inline(never)]
fn mk_ret_to(actor: &Actor<Act>, shape: u16, id: ItemId, kind: u8) -> Ret<Msg> {
    crate::for_shape_small!(shape as usize, m_ret_to, actor, id, kind)
}

fn notifier(aid: ActorId) -> Ret<StopCause> {
    Ret::new(move |c: Option<StopCause>| {
        let cause = c.as_ref().map(cause_of);
        super::logchk::actor_notified(aid, cause);
        hx(|h| {
            h.tr(|| format!("notifier of a{}: {:?}", aid, cause));
            h.ev(11, aid as u64, match cause {
                None => 0,
                Some(Cause::Stopped) => 1,
                Some(Cause::Failed(t)) => 1000 + t as u64,
                Some(Cause::Killed(t)) => 20000 + t as u64,
                Some(Cause::Dropped) => 4,
            });
            match cause {
                Some(Cause::Stopped) => h.stats.causes_seen[0] += 1,
                Some(Cause::Failed(_)) => h.stats.causes_seen[1] += 1,
                Some(Cause::Killed(_)) => h.stats.causes_seen[2] += 1,
                Some(Cause::Dropped) => h.stats.causes_seen[3] += 1,
                None => {}
            }
            if !h.dead {
                if cause.is_some() {
                    if let Some(p) = h.mon.actors[aid as usize].slab_parent {
                        // the slab's wrapper queued its bookkeeping call on the parent just before
                        h.mon.main.push_back(MQ::SlabRemove(p, aid));
                    }
                }
                let r = h.mon.notified(aid, cause);
                h.chk(r);
            }
        });
        drop(c);
    })
}

// ---------------------------------------------------------------------------
// Op execution

fn pick_idx(h: u8, len: usize) -> Option<usize> {
    if len == 0 {
        None
    } else {
        Some((h as usize * len) >> 8)
    }
}

/// Move up to n handles from the end of `bag` into a new item's bag
/// `target`: the item is a call to that actor.  Owning references only flow from lower to
/// higher actor index (no ownership cycles: the documented user responsibility), so an owner of
/// actor j is never put into a message for (or the state of) an actor i >= j.
fn move_bag(bag: &mut Vec<Handle>, n: u8, id: ItemId, target: Option<ActorId>) {
    let mut moved = Vec::new();
    let mut i = bag.len();
    while i > 0 && moved.len() < n as usize {
        i -= 1;
        if own_cycle(&bag[i], target) {
            continue;
        }
        note_weak_backref(&bag[i], target);
        moved.push(bag.remove(i));
    }
    if !moved.is_empty() {
        hx(|h| {
            h.tr(|| format!("  (i{} carries {})", id, moved.iter().map(|x| x.name()).collect::<Vec<_>>().join(", ")));
            let slot = &mut h.info[id as usize].bag;
            match slot {
                Some(v) => v.append(&mut moved),
                None => *slot = Some(std::mem::take(&mut moved)),
            }
        });
    }
}

/// A weak reference to actor j stored in (a message for / the state of) actor i >= j can close a
/// reference cycle that only termination breaks.  That is the caller's documented responsibility
/// and leaks on an abrupt drop(stakker), so programs that did it shut down in an orderly way.
fn note_weak_backref(h: &Handle, target: Option<ActorId>) {
    let w = match h {
        Handle::Actor(a) => Some(a.aid),
        Handle::Ret(r) => r.aid,
        Handle::Fwd(f) => f.aid,
        Handle::DropDefer(d) => d.aid,
        _ => None,
    };
    if let (Some(j), Some(i)) = (w, target) {
        if j <= i {
            hx(|h| h.weak_backref = true);
        }
    }
}

fn own_cycle(h: &Handle, target: Option<ActorId>) -> bool {
    match (h, target) {
        (Handle::Own(o), Some(t)) => o.aid <= t,
        (Handle::Anon(o), Some(t)) => o.aid <= t,
        _ => false,
    }
}

pub fn exec_body(env: &mut Env, body: BodyIdx, bag: &mut Vec<Handle>, fr: &mut Frame) {
    let prog = hx(|h| h.prog.clone());
    for op in prog.bodies[body as usize].iter() {
        if let Env::Top(_) = env {
            unreachable!("top level is driven by run_top");
        }
        exec_op(env, op, bag, fr);
    }
}

fn tag_lit(tag: u8) -> &'static str {
    ["lit0", "lit1", "lit2", "lit3"][tag as usize % 4]
}

pub fn exec_op(env: &mut Env, op: &Op, bag: &mut Vec<Handle>, fr: &mut Frame) {
    // Fwd bodies run once per message, so a program can feed itself for ever: bound the work
    let over = hx(|h| {
        h.op_count += 1;
        h.op_count > 6000 || h.info.len() > 4000
    });
    if over {
        match op {
            Op::DropH { .. } | Op::Stop | Op::Fail { .. } | Op::ReturnSome | Op::UseRet { .. } => {}
            _ => return,
        }
    }
    match *op {
        Op::Defer { path, shape, body, nbag } => {
            let tiny = SHAPES[shape as usize].0 < 4;
            // choose a path the context can do
            let mut path = path % 4;
            if env.core().is_none() && (path == 0 || path == 3) {
                path = 1;
            }
            let actor = if path == 2 { hx(|h| h.actor_ref(shape as u8 ^ body as u8)) } else { None };
            if path == 2 && actor.is_none() {
                path = 1;
            }
            let def = if path == 1 {
                let d = bag.iter().find_map(|x| if let Handle::Def(d) = x { Some(d.clone()) } else { None });
                match d {
                    Some(d) => Some(d),
                    None => match env.core() {
                        Some(c) => Some(c.deferrer()),
                        None => hx(|h| h.gbag.iter().find_map(|x| if let Handle::Def(d) = x { Some(d.clone()) } else { None })),
                    },
                }
            } else {
                None
            };
            if path == 1 && def.is_none() {
                return;
            }
            let id = hx(|h| {
                let id = h.new_item(Kind::Closure, Q::Main, body);
                if tiny {
                    h.info[id as usize].anon = Some(shape);
                }
                h.tr(|| format!("defer i{} via {} (size {} align {})", id, ["Core::defer", "Deferrer::defer", "Actor::defer", "call!([core])"][path as usize], SHAPES[shape as usize].0, SHAPES[shape as usize].1));
                if !h.dead {
                    h.mon.submit_main(id);
                }
                id
            });
            if !tiny {
                move_bag(bag, nbag, id, None);
            }
            match path {
                0 => sub_core_defer(env.core().unwrap(), shape, id),
                1 => sub_deferrer(&def.unwrap(), shape, id),
                2 => sub_actor_defer(&actor.unwrap().1, shape, id),
                _ => sub_call_core(env.core().unwrap(), shape, id),
            }
        }
        Op::Burst { path, shape, n } => {
            for k in 0..n {
                exec_op(env, &Op::Defer { path: path.wrapping_add((k % 3) as u8 * (path & 1)), shape, body: 0, nbag: 0 }, bag, fr);
            }
        }
        Op::Lazy { shape, body, nbag } => {
            if env.core().is_none() {
                return;
            }
            let id = hx(|h| {
                let id = h.new_item(Kind::Closure, Q::Lazy, body);
                h.tr(|| format!("lazy i{}", id));
                if !h.dead {
                    h.mon.submit_lazy(id);
                }
                id
            });
            move_bag(bag, nbag, id, None);
            sub_lazy(env.core().unwrap(), shape, id);
        }
        Op::Idle { body, nbag } => {
            if env.core().is_none() {
                return;
            }
            let id = hx(|h| {
                let id = h.new_item(Kind::Closure, Q::Idle, body);
                h.tr(|| format!("idle i{}", id));
                if !h.dead {
                    h.mon.submit_idle(id);
                }
                id
            });
            move_bag(bag, nbag, id, None);
            let cap = ICap::<16, crate::shapes::A8>::new(id);
            let core = env.core().unwrap();
            stakker::idle!([core], |s| cap.run(s));
        }
        Op::Timer { kind, delay, body, nbag } => {
            let core_now = match env.core() {
                Some(c) => hm_of(c.now()),
                None => return,
            };
            let expiry = core_now + 2 * delay as i64 + 1;
            let id = hx(|h| {
                let id = h.new_item(Kind::Closure, Q::Timer, body);
                h.tr(|| format!("timer i{} kind {} expiry {} ms", id, kind, expiry as f64 / 2.0));
                if !h.dead {
                    h.mon.submit_timer(id, expiry);
                }
                id
            });
            move_bag(bag, nbag, id, None);
            let cap = ICap::<24, crate::shapes::A8>::new(id);
            let core = env.core().unwrap();
            let key = match kind % 4 {
                0 => TKey::F(core.after(Duration::from_micros((2 * delay as u64 + 1) * 500), move |s| cap.run(s))),
                1 => TKey::F(core.timer_add(inst_hm(expiry), move |s| cap.run(s))),
                2 => TKey::X(core.timer_max_add(inst_hm(expiry), move |s| cap.run(s))),
                _ => TKey::N(core.timer_min_add(inst_hm(expiry), move |s| cap.run(s))),
            };
            hx(|h| h.timer_keys.push((id, key)));
        }
        Op::TimerDel { k } => {
            if env.core().is_none() {
                return;
            }
            let sel = hx(|h| pick_idx(k, h.timer_keys.len()).map(|i| h.timer_keys[i]));
            if let Some((id, key)) = sel {
                let expect = hx(|h| {
                    h.tr(|| format!("timer_del i{}", id));
                    if h.dead {
                        None
                    } else {
                        h.mon.timer_del_begin(id)
                    }
                });
                let core = env.core().unwrap();
                let ans = match key {
                    TKey::F(k) => core.timer_del(k),
                    TKey::X(k) => core.timer_max_del(k),
                    TKey::N(k) => core.timer_min_del(k),
                };
                hx(|h| {
                    h.ev(30, id as u64, ans as u64);
                    if !h.dead {
                        if let Some(e) = expect {
                            if e != ans {
                                h.viol(
                                    &["C10", "C05"],
                                    "timer-del-answer",
                                    format!("timer_del of i{} returned {} but the timer is {} in the model", id, ans, if e { "pending" } else { "not pending" }),
                                );
                            }
                        }
                        let r = h.mon.timer_del_end(id, ans);
                        h.chk(r);
                    }
                });
            }
        }
        Op::NewActor { style, shape, body, dest } => {
            let mut style = style % 3;
            if style == 2 && !matches!(env, Env::Ready(..)) {
                style = 0;
            }
            if env.core().is_none() {
                return;
            }
            let parent = match env {
                Env::Ready(this, _) if style == 2 => Some(this.aid),
                _ => None,
            };
            let (aid, init_item) = hx(|h| {
                let aid = if h.dead { h.mon.new_actor(None) } else { h.mon.new_actor(parent) };
                h.stats.actors += 1;
                if parent.is_some() {
                    h.stats.slab_children += 1;
                }
                let item = if style != 1 {
                    let id = h.new_item(Kind::PrepCall(aid), Q::Main, body);
                    if !h.dead {
                        h.mon.submit_main(id);
                    }
                    Some(id)
                } else {
                    None
                };
                h.tr(|| format!("new actor a{} ({}) init item {:?}", aid, ["actor!", "actor_new!", "actor_in_slab!"][style as usize], item));
                h.ev(12, aid as u64, style as u64);
                (aid, item)
            });
            let notify = notifier(aid);
            macro_rules! m_actor {
                ($s:expr, $a:ty, $core:expr, $id:expr, $notify:expr) => {{
                    let cap = ICap::<$s, $a>::new($id);
                    actor!($core, Act::init(cap), $notify)
                }};
            }
            macro_rules! m_slab {
                ($s:expr, $a:ty, $this:ident, $cx:ident, $id:expr, $notify:expr) => {{
                    let cap = ICap::<$s, $a>::new($id);
                    actor_in_slab!($this.slab, $cx, Act::init(cap), $notify)
                }};
            }
            let own: Option<ActorOwn<Act>>;
            let weak: Actor<Act>;
            match (style, &mut *env) {
                (2, Env::Ready(this, cx)) => {
                    let id = init_item.unwrap();
                    let this: &mut Act = this;
                    let cx: &mut Cx<'_, Act> = cx;
                    weak = crate::for_shape_small!(shape as usize, m_slab, this, cx, id, notify);
                    own = None;
                }
                (1, e) => {
                    let o = match e {
                        Env::Ready(_, cx) => actor_new!(cx, Act, notify),
                        Env::Prep(cx) => actor_new!(cx, Act, notify),
                        Env::Top(s) | Env::Item(s) => actor_new!(s, Act, notify),
                        Env::NoCore => unreachable!(),
                    };
                    weak = o.clone();
                    own = Some(o);
                }
                (_, e) => {
                    let id = init_item.unwrap();
                    let o = match e {
                        Env::Ready(_, cx) => crate::for_shape_small!(shape as usize, m_actor, cx, id, notify),
                        Env::Prep(cx) => crate::for_shape_small!(shape as usize, m_actor, cx, id, notify),
                        Env::Top(s) | Env::Item(s) => crate::for_shape_small!(shape as usize, m_actor, s, id, notify),
                        Env::NoCore => unreachable!(),
                    };
                    weak = o.clone();
                    own = Some(o);
                }
            }
            let log_id = weak.id();
            let parent_id = match &*env {
                Env::Ready(_, cx) => cx.id(),
                Env::Prep(cx) => cx.id(),
                _ => 0,
            };
            hx(|h| {
                while h.arefs.len() < aid as usize {
                    h.arefs.push(None);
                }
                if h.arefs.len() == aid as usize {
                    h.arefs.push(Some(weak));
                } else {
                    h.arefs[aid as usize] = Some(weak);
                }
                h.live_handles += own.is_some() as i64;
            });
            super::logchk::actor_created(aid, log_id, parent_id);
            if let Some(o) = own {
                let hd = own_w(o, aid);
                match (dest % 3, &mut *env) {
                    (1, _) => {
                        // global registers; must not be touched while borrowed
                        hx(|h| h.gbag.push(hd));
                    }
                    (2, Env::Ready(this, _)) => this.bag.push(hd),
                    (2, Env::Prep(_)) => fr.state_bag.push(hd),
                    _ => bag.push(hd),
                }
            }
        }
        Op::Call { a, via, shape, body, nbag } => {
            let target = hx(|h| h.actor_ref(a));
            let (aid, actor) = match target {
                Some(t) => t,
                None => return,
            };
            let id = hx(|h| {
                let id = h.new_item(Kind::Call(aid), Q::Main, body);
                let st0 = h.mon.actors[aid as usize].st;
                h.tr(|| format!("call i{} -> a{} ({:?})", id, aid, st0));
                if !h.dead {
                    if h.mon.actors[aid as usize].st == AState::Prep {
                        h.stats.async_init_calls_before_ready += 1;
                    }
                    h.mon.submit_main(id);
                }
                id
            });
            move_bag(bag, nbag, id, Some(aid));
            let core = if via % 2 == 1 { env.core() } else { None };
            sub_call(&actor, core, shape, id);
        }
        Op::PrepCall { a, shape, body, nbag } => {
            let target = hx(|h| h.actor_ref(a));
            let (aid, actor) = match target {
                Some(t) => t,
                None => return,
            };
            let id = hx(|h| {
                let id = h.new_item(Kind::PrepCall(aid), Q::Main, body);
                let st0 = h.mon.actors[aid as usize].st;
                h.tr(|| format!("prep call i{} -> a{} ({:?})", id, aid, st0));
                if !h.dead {
                    h.mon.submit_main(id);
                }
                id
            });
            move_bag(bag, nbag, id, Some(aid));
            sub_prep(&actor, shape, id);
        }
        Op::MakeRet { kind, a, shape, body } => {
            let kind = kind % 6;
            let target = if kind >= 2 { hx(|h| h.actor_ref(a)) } else { None };
            if kind >= 2 && target.is_none() {
                return;
            }
            let target_aid = target.as_ref().map(|t| t.0);
            let (rid, tag) = hx(|h| {
                let rid = h.rets.len() as u32;
                let tag = match (kind, &target) {
                    (2, Some((aid, _))) | (3, Some((aid, _))) => Some(h.new_item(Kind::Call(*aid), Q::Main, body)),
                    (4, Some((aid, _))) | (5, Some((aid, _))) => Some(h.new_item(Kind::PrepCall(*aid), Q::Main, body)),
                    _ => None,
                };
                if let Some(t) = tag {
                    h.info[t as usize].ret_of = Some(rid);
                    h.mon.items[t as usize].ret_tag = true;
                }
                h.rets.push(RetInfo { kind, body, tag, state: 0, sent: false });
                h.live_handles += 1;
                h.tr(|| format!("make Ret r{} kind {} tag {:?}", rid, kind, tag));
                (rid, tag)
            });
            let r: Ret<Msg> = match kind {
                0 => Ret::new(move |m: Option<Msg>| ret_handler(rid, m)),
                1 => ret_some_do!(move |m: Msg| ret_handler(rid, Some(m))),
                k => mk_ret_to(&target.unwrap().1, shape, tag.unwrap(), k),
            };
            bag.push(Handle::Ret(RetW { r: Some(r), rid, aid: target_aid }));
        }
        Op::MakeFwd { kind, a, body } => {
            let kind = kind % 3;
            let target = if kind != 1 { hx(|h| h.actor_ref(a)) } else { None };
            if kind != 1 && target.is_none() {
                return;
            }
            let fwd_aid = target.as_ref().map(|t| t.0);
            let fid = hx(|h| {
                h.fwd_bodies.push((body, target.as_ref().map(|t| t.0), kind == 2));
                h.live_handles += 1;
                (h.fwd_bodies.len() - 1) as u32
            });
            let f: Fwd<Msg> = match kind {
                0 => {
                    let actor = &target.unwrap().1;
                    fwd_to!([actor], on_fwd(fid) as (Msg))
                }
                2 => {
                    let actor = &target.unwrap().1;
                    fwd_to!([actor], Act::on_fwd_prep(fid) as (Msg))
                }
                _ => fwd_do!(move |m: Msg| fwd_handler(fid, m)),
            };
            bag.push(Handle::Fwd(FwdW { f, fid, aid: fwd_aid }));
        }
        Op::UseRet { h, some } => {
            let pos: Vec<usize> = bag.iter().enumerate().filter(|(_, x)| matches!(x, Handle::Ret(_))).map(|(i, _)| i).collect();
            let i = match pick_idx(h, pos.len()) {
                Some(i) => pos[i],
                None => return,
            };
            let hd = bag.remove(i);
            if !some {
                hx(|h| h.live_handles -= 1);
                drop(hd);
                return;
            }
            if let Handle::Ret(mut w) = hd {
                let r = w.r.take().unwrap();
                let rid = w.rid;
                drop(w);
                let msg = Msg::new(None);
                hx(|h| {
                    h.live_handles -= 1;
                    h.tr(|| format!("ret r{} Some(m{})", rid, msg.mid));
                    h.ret_bracket.push((rid, true));
                    h.rets[rid as usize].sent = true;
                    let ri = &h.rets[rid as usize];
                    if let (true, Some(t)) = (ri.kind >= 2, ri.tag) {
                        if !h.dead {
                            h.mon.submit_main(t);
                        }
                    }
                });
                r.ret(msg);
                hx(|h| {
                    h.ret_bracket.pop();
                    let ri = &h.rets[rid as usize];
                    if ri.kind <= 1 && ri.state != 1 {
                        h.viol(&["C05"], "ret-no-some", format!("ret() on r{} did not invoke its handler with Some (state {})", rid, ri.state));
                    }
                });
            }
        }
        Op::UseFwd { h } => {
            let pos: Vec<usize> = bag.iter().enumerate().filter(|(_, x)| matches!(x, Handle::Fwd(_))).map(|(i, _)| i).collect();
            let i = match pick_idx(h, pos.len()) {
                Some(i) => pos[i],
                None => return,
            };
            if let Handle::Fwd(w) = &bag[i] {
                let fid = w.fid;
                let f = w.f.clone();
                let item = hx(|h| {
                    let (body, aid, prep) = h.fwd_bodies[fid as usize];
                    h.stats.clone_drop_ops += 1;
                    match aid {
                        Some(aid) => {
                            let id = h.new_item(if prep { Kind::PrepCall(aid) } else { Kind::Call(aid) }, Q::Main, body);
                            h.tr(|| format!("fwd f{} -> call i{} to a{}", fid, id, aid));
                            if !h.dead {
                                h.mon.submit_main(id);
                            }
                            Some(id)
                        }
                        None => None,
                    }
                });
                f.fwd(Msg::new(item));
            }
        }
        Op::DropH { h } => {
            if let Some(i) = pick_idx(h, bag.len()) {
                let hd = bag.remove(i);
                hx(|h| {
                    h.live_handles -= match hd {
                        Handle::Own(_) | Handle::Anon(_) | Handle::Ret(_) | Handle::Fwd(_) => 1,
                        _ => 0,
                    };
                    h.stats.clone_drop_ops += 1;
                    h.tr(|| format!("drop handle {}", hd.name()));
                });
                drop(hd);
            }
        }
        Op::CloneActor { a } => {
            if let Some((aid, actor)) = hx(|h| h.actor_ref(a)) {
                hx(|h| h.stats.clone_drop_ops += 1);
                bag.push(Handle::Actor(ActorW { a: actor, aid }));
            }
        }
        Op::Owned { h } => {
            let pos: Vec<usize> = bag.iter().enumerate().filter(|(_, x)| matches!(x, Handle::Own(_))).map(|(i, _)| i).collect();
            if let Some(i) = pick_idx(h, pos.len()) {
                if let Handle::Own(w) = &bag[pos[i]] {
                    let aid = w.aid;
                    let o = w.o.as_ref().unwrap().owned();
                    hx(|h| {
                        h.live_handles += 1;
                        h.stats.clone_drop_ops += 1;
                        h.tr(|| format!("owned() of a{}", aid));
                        if !h.dead {
                            h.mon.owner_inc(aid);
                        }
                    });
                    bag.push(own_w(o, aid));
                }
            }
        }
        Op::Anon { h } => {
            let pos: Vec<usize> = bag.iter().enumerate().filter(|(_, x)| matches!(x, Handle::Own(_))).map(|(i, _)| i).collect();
            if let Some(i) = pick_idx(h, pos.len()) {
                if let Handle::Own(mut w) = bag.remove(pos[i]) {
                    let aid = w.aid;
                    let o = w.o.take().unwrap();
                    // the wrapper's own Drop would count an owner going away: compensate
                    hx(|h| {
                        if !h.dead {
                            h.mon.owner_inc(aid);
                        }
                    });
                    drop(w);
                    // owner_dec on an empty wrapper may have queued a Term in the model if the count hit 0
                    // (it cannot: we incremented first)
                    bag.push(Handle::Anon(AnonW { o: Some(o.anon()), aid }));
                }
            }
        }
        Op::MoveH { h, to } => {
            if let Some(i) = pick_idx(h, bag.len()) {
                if to % 2 == 1 && own_cycle(&bag[i], fr.aid.or(match &*env { Env::Ready(t, _) => Some(t.aid), _ => None })) {
                    return;
                }
                if to % 2 == 1 {
                    note_weak_backref(&bag[i], fr.aid.or(match &*env { Env::Ready(t, _) => Some(t.aid), _ => None }));
                }
                let hd = bag.remove(i);
                match (to % 2, &mut *env) {
                    (1, Env::Ready(this, _)) => this.bag.push(hd),
                    (1, Env::Prep(_)) => fr.state_bag.push(hd),
                    _ => hx(|h| h.gbag.push(hd)),
                }
            }
        }
        Op::TakeH { from, h } => match (from % 2, &mut *env) {
            (1, Env::Ready(this, _)) => {
                if let Some(i) = pick_idx(h, this.bag.len()) {
                    let hd = this.bag.remove(i);
                    bag.push(hd);
                }
            }
            _ => {
                let hd = hx(|hh| pick_idx(h, hh.gbag.len()).map(|i| hh.gbag.remove(i)));
                if let Some(hd) = hd {
                    bag.push(hd);
                }
            }
        },
        Op::MakeDropDefer { path, shape, body, chain } => {
            let def = match env.core() {
                Some(c) => c.deferrer(),
                None => return,
            };
            let actor = if path == 2 { hx(|h| h.actor_ref(chain ^ shape as u8)) } else { None };
            let aid = actor.as_ref().map(|x| x.0);
            bag.push(Handle::DropDefer(DropDeferW { path, shape, body, chain, def, actor: actor.map(|x| x.1), aid }));
        }
        Op::MakeDeferrer => {
            if let Some(c) = env.core() {
                let d = c.deferrer();
                hx(|h| h.stats.clone_drop_ops += 1);
                bag.push(Handle::Def(d));
            }
        }
        Op::ForgetActor { a } => {
            let r = hx(|h| {
                let t = h.actor_ref(a);
                if let Some((aid, _)) = &t {
                    // keep at least one addressable actor around when few exist
                    if h.arefs.iter().filter(|x| x.is_some()).count() > 1 {
                        if h.mon.actors[*aid as usize].st == AState::Zombie {
                            h.stats.weak_freed_after_term += 1;
                        }
                        return h.arefs[*aid as usize].take();
                    }
                }
                None
            });
            drop(r);
        }
        Op::Kill { h, how, tag } => {
            let pos: Vec<usize> = bag.iter().enumerate().filter(|(_, x)| matches!(x, Handle::Own(_))).map(|(i, _)| i).collect();
            let i = match pick_idx(h, pos.len()) {
                Some(i) => pos[i],
                None => return,
            };
            let (aid, own) = match &bag[i] {
                Handle::Own(w) => (w.aid, w.o.as_ref().unwrap()),
                _ => unreachable!(),
            };
            let mut how = how % 6;
            if how >= 3 && env.stakker().is_none() {
                how -= 3;
            }
            let ctag: u32 = match how % 3 {
                0 => tag as u32 % 4,
                1 => 100 + tag as u32,
                _ => 200 + tag as u32,
            };
            if how < 3 {
                hx(|h| {
                    h.tr(|| format!("kill!(a{}) tag {}", aid, ctag));
                    if !h.dead {
                        h.mon.kill_queued(aid, ctag);
                    }
                });
                match how {
                    0 => match tag % 4 {
                        0 => kill!(own, "lit0"),
                        1 => kill!(own, "lit1"),
                        2 => kill!(own, "lit2"),
                        _ => kill!(own, "lit3"),
                    },
                    1 => kill!(own, "fmt{}", tag),
                    _ => kill!(own, Box::new(TagErr(tag as u32)) as Box<dyn Error>),
                }
            } else {
                hx(|h| {
                    h.tr(|| format!("direct kill of a{} tag {}", aid, ctag));
                    if !h.dead {
                        let r = h.mon.direct_kill(aid, ctag);
                        h.chk(r);
                    }
                });
                let s = env.stakker().unwrap();
                match how {
                    3 => own.kill_str(s, tag_lit(tag)),
                    4 => own.kill_string(s, format!("fmt{}", tag)),
                    _ => own.kill(s, Box::new(TagErr(tag as u32))),
                }
                hx(|h| {
                    if !h.dead {
                        let r = h.mon.direct_kill_done(aid);
                        h.chk(r);
                    }
                });
            }
        }
        Op::Stop => {
            let aid = match fr.aid {
                Some(a) => a,
                None => return,
            };
            hx(|h| {
                h.tr(|| format!("stop!(a{})", aid));
                if !h.dead {
                    h.mon.die_request(aid, Cause::Stopped);
                }
            });
            match env {
                Env::Ready(_, cx) => stop!(cx),
                Env::Prep(cx) => stop!(cx),
                _ => {}
            }
        }
        Op::Fail { kind, tag } => {
            let aid = match fr.aid {
                Some(a) => a,
                None => return,
            };
            let ctag: u32 = match kind % 3 {
                0 => tag as u32 % 4,
                1 => 100 + tag as u32,
                _ => 200 + tag as u32,
            };
            let cx: &mut Cx<'_, Act> = match env {
                Env::Ready(_, cx) => cx,
                Env::Prep(cx) => cx,
                _ => return,
            };
            hx(|h| {
                h.tr(|| format!("fail!(a{}) tag {}", aid, ctag));
                if !h.dead {
                    h.mon.die_request(aid, Cause::Failed(ctag));
                }
            });
            match kind % 3 {
                0 => match tag % 4 {
                    0 => fail!(cx, "lit0"),
                    1 => fail!(cx, "lit1"),
                    2 => fail!(cx, "lit2"),
                    _ => fail!(cx, "lit3"),
                },
                1 => fail!(cx, "fmt{}", tag),
                _ => fail!(cx, TagErr(tag as u32)),
            }
        }
        Op::ReturnSome => {
            if let Env::Prep(_) = env {
                fr.ret_some = true;
            }
        }
        Op::Query { a, body } => {
            let s = match env {
                Env::Top(s) => s,
                _ => return,
            };
            if let Some((aid, actor)) = hx(|h| h.actor_ref(a)) {
                let expect_ready = hx(|h| {
                    h.stats.queries += 1;
                    h.mon.actors[aid as usize].st == AState::Ready
                });
                let r = actor.query(s, |this, cx| {
                    let id = hx(|h| {
                        let id = h.new_item(Kind::Call(aid), Q::Main, body);
                        if !h.dead {
                            let r = h.mon.query_start(id, aid);
                            h.chk(r);
                        }
                        id
                    });
                    let mut b = Vec::new();
                    let mut fr = Frame { aid: Some(aid), ..Default::default() };
                    exec_body(&mut Env::Ready(this, cx), body, &mut b, &mut fr);
                    drop(b);
                    hx(|h| {
                        if !h.dead {
                            let r = h.mon.item_end(id, false);
                            h.chk(r);
                        }
                    });
                    this.slab.len()
                });
                hx(|h| {
                    h.ev(31, aid as u64, r.map(|x| x as u64 + 1).unwrap_or(0));
                    h.tr(|| format!("query!(a{}) -> {:?}", aid, r));
                    if !h.dead && r.is_some() != expect_ready {
                        h.viol(
                            &["C02", "C03"],
                            "query-state",
                            format!("query! on a{} returned {:?} but the actor is {:?} in the model", aid, r, h.mon.actors[aid as usize].st),
                        );
                    }
                });
            }
        }
        Op::Storm { a, n } => {
            if let Some((aid, actor)) = hx(|h| h.actor_ref(a)) {
                let mut v: Vec<Actor<Act>> = Vec::new();
                let mut fw: Vec<Fwd<Msg>> = Vec::new();
                let f0: Fwd<Msg> = fwd_to!([actor], on_fwd(0u32) as (Msg));
                for k in 0..n {
                    match k % 5 {
                        0 | 1 => v.push(actor.clone()),
                        2 => fw.push(f0.clone()),
                        3 => {
                            if v.len() > 1 {
                                v.swap_remove(k as usize % v.len());
                            }
                        }
                        _ => {
                            if !fw.is_empty() {
                                fw.swap_remove(k as usize % fw.len());
                            }
                        }
                    }
                }
                hx(|h| h.stats.clone_drop_ops += n as u32);
                // keep a few of them in the bag, drop the rest here
                if let Some(x) = v.pop() {
                    bag.push(Handle::Actor(ActorW { a: x, aid }));
                }
                drop(v);
                drop(fw);
                drop(f0);
            }
        }
        Op::Shutdown { take } => {
            if let Some(core) = env.core() {
                let before = core.not_shutdown();
                if take {
                    let r = core.shutdown_reason();
                    let after = core.not_shutdown();
                    hx(|h| {
                        h.ev(33, r.is_some() as u64, after as u64);
                        if r.is_some() == before || !after {
                            h.viol(&["C15"], "shutdown-flag", "shutdown_reason()/not_shutdown() disagree".to_string());
                        }
                    });
                } else {
                    core.shutdown(StopCause::Stopped);
                    hx(|h| h.tr(|| "core.shutdown(Stopped)".to_string()));
                }
            }
        }
        Op::SlabStorm { n, kill, cull, shape, body, stop_body } => {
            let parent = match env {
                Env::Ready(this, _) => this.aid,
                _ => return,
            };
            // cull: kill!() some of the children this actor's slab still holds
            let victims: Vec<(ActorId, Actor<Act>)> = hx(|h| {
                if h.dead {
                    return Vec::new();
                }
                let ch = h.mon.actors[parent as usize].slab_children.clone();
                ch.iter()
                    .enumerate()
                    .filter(|(i, _)| (cull >> (*i % 64)) & 1 == 1)
                    .filter_map(|(_, c)| h.arefs.get(*c as usize).and_then(|x| x.as_ref()).map(|a| (*c, a.clone())))
                    .collect()
            });
            let mut killed = 0u32;
            for (aid, actor) in victims {
{
                    let id = hx(|h| {
                        let id = h.new_item(Kind::Call(aid), Q::Main, stop_body);
                        let st0 = h.mon.actors[aid as usize].st;
                        h.tr(|| format!("call i{} -> a{} ({:?}) [slab storm: stop]", id, aid, st0));
                        if !h.dead {
                            h.mon.submit_main(id);
                        }
                        id
                    });
                    sub_call(&actor, None, shape, id);
                    killed += 1;
                }
            }
            // storm: n more children, most of them killed at once
            for i in 0..n as u32 {
                if hx(|h| h.dead) {
                    break;
                }
                let before = hx(|h| h.mon.actors.len());
                exec_op(env, &Op::NewActor { style: 2, shape, body, dest: 0 }, bag, fr);
                let created = hx(|h| if h.mon.actors.len() > before { Some(before as ActorId) } else { None });
                if let (Some(aid), true) = (created, (kill >> (i % 64)) & 1 == 1) {
                    let actor = hx(|h| h.arefs.get(aid as usize).and_then(|x| x.as_ref()).cloned());
                    if let Some(actor) = actor {
{
                    let id = hx(|h| {
                        let id = h.new_item(Kind::Call(aid), Q::Main, stop_body);
                        let st0 = h.mon.actors[aid as usize].st;
                        h.tr(|| format!("call i{} -> a{} ({:?}) [slab storm: stop]", id, aid, st0));
                        if !h.dead {
                            h.mon.submit_main(id);
                        }
                        id
                    });
                    sub_call(&actor, None, shape, id);
                    killed += 1;
                }
                    }
                }
            }
            hx(|h| {
                let live = h.mon.actors[parent as usize].slab_children.len() as u32;
                if live > h.stats.max_slab {
                    h.stats.max_slab = live;
                }
                h.stats.slab_storm_kills += killed;
            });
        }
        Op::Run { .. } | Op::DropStakker => {}
    }
}

fn ret_handler(rid: u32, m: Option<Msg>) {
    let body = hx(|h| {
        let some = m.is_some();
        h.tr(|| format!("Ret r{} handler invoked with {}", rid, if some { "Some" } else { "None" }));
        h.ev(23, rid as u64, some as u64);
        let st = h.rets[rid as usize].state;
        if st != 0 {
            h.viol(&["C05"], "ret-invoked-twice", format!("handler of Ret r{} invoked a second time", rid));
        }
        match h.ret_bracket.last() {
            Some((r, send)) if *r == rid => {
                if *send != some {
                    h.viol(
                        &["C05"],
                        "ret-wrong-arg",
                        format!("handler of Ret r{} got {} during {}", rid, if some { "Some" } else { "None" }, if *send { "ret()" } else { "drop" }),
                    );
                }
            }
            _ => h.viol(
                &["C05"],
                "ret-invoked-elsewhere",
                format!("handler of Ret r{} invoked outside its ret()/drop", rid),
            ),
        }
        h.rets[rid as usize].state = if some { 1 } else { 2 };
        h.rets[rid as usize].body
    });
    let mut b = Vec::new();
    let mut fr = Frame::default();
    exec_body(&mut Env::NoCore, body, &mut b, &mut fr);
    drop(b);
    drop(m);
}

fn fwd_handler(fid: u32, m: Msg) {
    let body = hx(|h| {
        h.tr(|| format!("Fwd f{} handler invoked", fid));
        h.ev(24, fid as u64, m.mid as u64);
        h.fwd_bodies[fid as usize].0
    });
    let mut b = Vec::new();
    let mut fr = Frame::default();
    exec_body(&mut Env::NoCore, body, &mut b, &mut fr);
    drop(b);
    drop(m);
}

// ---------------------------------------------------------------------------
// Top level

fn do_run(s: &mut Stakker, target_hm: i64, idle: bool) {
    let target_hm = target_hm.max(0);
    hx(|h| {
        h.tr(|| format!("run({} ms, idle={})", target_hm as f64 / 2.0, idle));
        h.stats.runs += 1;
        if !h.dead {
            h.mon.run_begin(target_hm, idle);
        }
        if target_hm > h.now_hm {
            h.now_hm = target_hm;
        }
    });
    let r = s.run(inst_hm(target_hm), idle);
    let parents: Vec<(ActorId, Actor<Act>, usize)> = hx(|h| {
        h.tr(|| format!("run returned {}", r));
        h.ev(3, r as u64, target_hm as u64);
        h.stats.pending_bytes = 0;
        if target_hm > h.last_recreate_hm + 120_000 {
            h.stats.crossed_recreate += 1;
            h.last_recreate_hm = target_hm;
        }
        if !h.dead {
            let r2 = h.mon.run_end(r);
            h.chk(r2);
            sample_zombies(h, "after run()");
        }
        if !h.dead && s.start_instant() != inst_hm(0) {
            h.viol(&["C15"], "start-instant", "start_instant() changed".to_string());
        }
        let snow = hm_of(s.now());
        if !h.dead && snow != h.mon.now {
            h.viol(
                &["C15"],
                "now-after-run",
                format!("Core::now() after run is {} ms, greatest instant passed is {} ms", snow as f64 / 2.0, h.mon.now as f64 / 2.0),
            );
        }
        if h.dead {
            return Vec::new();
        }
        (0..h.arefs.len())
            .filter_map(|i| {
                let a = h.arefs[i].as_ref()?;
                let m = &h.mon.actors[i];
                if m.st == AState::Ready && h.stats.slab_children > 0 {
                    Some((i as ActorId, a.clone(), m.slab_children.len()))
                } else {
                    None
                }
            })
            .collect()
    });
    super::logchk::after_run(s, hx(|h| h.stats.runs));
    // C04: a slab contains exactly its not-yet-terminated children once the run completes
    for (aid, a, expect) in parents {
        let got = a.query(s, |this, _| this.slab.len());
        hx(|h| {
            h.ev(32, aid as u64, got.map(|x| x as u64 + 1).unwrap_or(0));
            if !h.dead && got != Some(expect) {
                h.viol(
                    &["C04"],
                    "slab-len",
                    format!("after run() the slab of a{} has len {:?} but {} of its children have not terminated", aid, got, expect),
                );
            }
        });
    }
}

fn do_drop_stakker(st: &mut Option<Stakker>) {
    if let Some(s) = st.take() {
        hx(|h| {
            h.tr(|| "drop(stakker)".to_string());
            h.ev(4, 0, 0);
            if !h.dead {
                h.mon.stakker_drop_begin();
                h.stats.stakker_dropped_pending += h.mon.stat_drop_pending;
            }
        });
        drop(s);
        hx(|h| {
            h.tr(|| "drop(stakker) returned".to_string());
            if !h.dead {
                let r = h.mon.stakker_drop_end();
                h.chk(r);
            }
        });
    }
}

fn orderly_shutdown(st: &mut Option<Stakker>) {
    let g = hx(|h| std::mem::take(&mut h.gbag));
    drop(g);
    if let Some(s) = st.as_mut() {
        for round in 0..12_000 {
            let now = hx(|h| h.now_hm);
            let more = {
                do_run(s, now + 2, true);
                hx(|h| !h.mon.idle.is_empty())
            };
            let timers = s.next_expiry().is_some();
            if timers {
                let now = hx(|h| h.now_hm);
                do_run(s, now + 2 * 4_000_000, true);
            }
            let again = hx(|h| !h.mon.idle.is_empty() || !h.mon.timers.is_empty() || !h.gbag.is_empty());
            let g = hx(|h| std::mem::take(&mut h.gbag));
            drop(g);
            if !more && !timers && !again && round > 0 {
                break;
            }
            if hx(|h| h.dead) {
                break;
            }
        }
    }
    do_drop_stakker(st);
}

/// The DropStakker operation: an abrupt drop(stakker) where the generator's rules allow it,
/// otherwise an orderly shutdown
fn drop_stakker_op(st: &mut Option<Stakker>, bag: &mut Vec<Handle>) {
    if st.is_some() {
        // feature-matrix mode: an abrupt drop only when nothing can defer afterwards
        let can_defer_later = |b: &Vec<Handle>| {
            b.iter().any(|x| match x {
                Handle::Own(_) | Handle::Anon(_) | Handle::DropDefer(_) => true,
                Handle::Ret(r) => r.aid.is_some(),
                _ => false,
            })
        };
        // In matrix mode the harness first lets go of everything it holds (locals,
        // global registers, its per-actor references): the terminations and drop-handler
        // closures this queues are then pending when the Stakker is dropped, so actors
        // are freed un-terminated *inside* Stakker::drop - where every feature set must
        // produce the same events - and nothing is left that could defer afterwards.
        if hx(|h| h.matrix) {
            let b = std::mem::take(bag);
            drop(b);
            for _ in 0..1000 {
                let g = hx(|h| std::mem::take(&mut h.gbag));
                if g.is_empty() {
                    break;
                }
                drop(g);
            }
        }
        let matrix_block = hx(|h| {
            h.matrix
                && (!h.mon.lazy.is_empty()
                    || !h.mon.idle.is_empty()
                    || !h.mon.timers.is_empty()
                    || can_defer_later(&h.gbag))
        }) || (hx(|h| h.matrix) && can_defer_later(bag));
        if matrix_block {
            hx(|h| h.rep.class("abrupt-drop-skipped:matrix-mode"));
            let b = std::mem::take(bag);
            drop(b);
            orderly_shutdown(st);
            return;
        }
        let sig = hx(|h| if h.strict || h.dead { None } else { h.mon.f2_signature() });
        let weak = hx(|h| h.weak_backref);
        if sig.is_none() && weak {
            hx(|h| h.rep.class("abrupt-drop-skipped:user-weak-cycle"));
            let b = std::mem::take(bag);
            drop(b);
            orderly_shutdown(st);
            return;
        }
        match sig {
            Some(sig) => {
                hx(|h| {
                    h.rep.excluded.push(sig);
                    h.tr(|| format!("(abrupt drop(stakker) replaced by an orderly shutdown: known finding {})", sig));
                });
                let b = std::mem::take(bag);
                drop(b);
                orderly_shutdown(st);
            }
            None => {
                hx(|h| h.rep.class("abrupt-stakker-drop"));
                if hx(|h| h.matrix) {
                    let refs = hx(|h| std::mem::take(&mut h.arefs));
                    drop(refs);
                }
                do_drop_stakker(st);
            }
        }
    }
}

fn run_top(prog: &Prog) {
    let mut st = Some(Stakker::new(inst_hm(0)));
    super::logchk::install(st.as_mut().unwrap(), hx(|h| h.seed));
    let mut bag: Vec<Handle> = Vec::new();
    let mut fr = Frame::default();
    let mut nops = 0u64;
    for op in prog.bodies[1].iter() {
        nops += 1;
        if hx(|h| h.dead) {
            break;
        }
        match op {
            Op::Run { dt, idle, back } => {
                if let Some(s) = st.as_mut() {
                    let now = hx(|h| h.now_hm);
                    let target = if *back { now - 2 * *dt as i64 } else { now + 2 * *dt as i64 };
                    do_run(s, target, *idle);
                }
            }
            Op::DropStakker => drop_stakker_op(&mut st, &mut bag),
            op => match st.as_mut() {
                Some(s) => exec_op(&mut Env::Top(s), op, &mut bag, &mut fr),
                None => exec_op(&mut Env::NoCore, op, &mut bag, &mut fr),
            },
        }
    }
    hx(|h| h.rep.ops = nops);
    // feature-matrix mode: half of the programs that still have their Stakker end with the
    // DropStakker operation (abrupt where allowed) rather than an orderly shutdown, so that
    // whatever is live or queued then is released inside Stakker::drop in every feature set
    if st.is_some() && hx(|h| h.matrix && !h.dead && (h.seed >> 33) & 1 == 1) {
        drop_stakker_op(&mut st, &mut bag);
    }
    drop(bag);
    if st.is_some() {
        orderly_shutdown(&mut st);
    }
    // release everything the harness still holds; handlers that run during these drops may put
    // more into the global registers, so iterate
    let drain = || {
        for _ in 0..1000 {
            let g = hx(|h| std::mem::take(&mut h.gbag));
            if g.is_empty() {
                break;
            }
            drop(g);
        }
    };
    drain();
    let refs = hx(|h| std::mem::take(&mut h.arefs));
    drop(refs);
    drain();
    // closures deferred after the Stakker was gone are discarded by the next Stakker::new
    // (documented); they must be dropped exactly once and never run
    hx(|h| h.mon.second_phase = true);
    for _ in 0..4 {
        let mut s = Stakker::new(inst_hm(hx(|h| h.now_hm)));
        // a later Stakker on this thread must not execute what an earlier one left behind
        if hx(|h| h.mon.second_run_safe()) {
            s.run(inst_hm(hx(|h| h.now_hm)), false);
        }
        drop(s);
        if hx(|h| h.gbag.is_empty()) {
            break;
        }
        drain();
    }
}

fn summarize(h: &mut Hx) {
    // C20 record counts
    // (done by the caller before summarize, needs the installed context)
    // end-of-case obligations: report each of them (they decide different properties)
    if !h.dead {
        let mut out: Vec<Viol> = Vec::new();
        for (i, r) in h.rets.iter().enumerate() {
            if r.kind == 0 && r.state == 0 {
                out.push(Viol {
                    props: vec!["C05"],
                    rule: "ret-never-invoked",
                    msg: format!("handler of Ret r{} was never invoked (neither Some nor None)", i),
                });
                break;
            }
        }
        out.extend(h.mon.final_check());
        if let Some(i) = h.msgs.iter().position(|m| *m == 0) {
            out.push(Viol {
                props: vec!["C16"],
                rule: "msg-never-dropped",
                msg: format!("message m{} was never dropped", i),
            });
        }
        for v in out {
            if h.trace {
                h.rep.trace.push(format!("!! VIOLATION [{}] {}", v.rule, v.msg));
            }
            h.rep.viol(&v.props, v.rule, v.msg);
        }
        if !h.rep.violations.is_empty() {
            h.dead = true;
        }
    }
    let m = &h.mon;
    let s = &h.stats;
    let rep = &mut h.rep;
    // classes
    if s.max_pending_bytes > 1024 {
        rep.class("main-queue>1KiB");
    }
    if s.max_pending_bytes > 4096 {
        rep.class("main-queue>4KiB");
    }
    if s.crossed_recreate > 0 {
        rep.class("run-crosses-60s-recreation");
    }
    if m.items.iter().any(|i| i.q == Q::Timer && i.st == IState::Ran) {
        rep.class("timer-fired");
    }
    if m.stat_drop_handler_submit > 0 {
        rep.class("drop-handler-defers");
    }
    if s.stakker_dropped_pending > 0 {
        rep.class("stakker-dropped-with-pending");
    }
    if m.stat_freed_in_stakker_drop > 0 {
        rep.class("actor-value-freed-unterminated-inside-stakker-drop");
    }
    if m.stat_max_drop_gen >= 10 {
        rep.class("drop-generations>=10");
    }
    if m.stat_held_flushed > 0 {
        rep.class("held-calls-flushed");
    }
    if m.stat_held_dropped > 0 {
        rep.class("prep-actor-terminated-with-held-calls");
    }
    if m.stat_discarded_zombie > 0 {
        rep.class("call-discarded-zombie");
    }
    if s.slab_children > 0 {
        rep.class("slab-children");
    }
    if s.max_slab >= 17 && s.slab_storm_kills >= 9 {
        rep.class("slab>=17-children-then-shrunk");
    }
    if m.stat_multi_term_requests > 0 {
        rep.class("stacked-termination-requests");
    }
    if s.rets_abandoned_special > 0 {
        rep.class("ret-abandoned");
    }
    // non-trivial rules
    if m.stat_reentrant_depth >= 2
        && (s.max_pending_bytes > 1024 || s.crossed_recreate > 0 || m.stat_drop_handler_submit > 0 || s.stakker_dropped_pending > 0)
    {
        rep.nt("C01");
    }
    if (s.async_init_calls_before_ready >= 2 && m.stat_held_flushed >= 1 && s.calls_after_ready >= 1)
        || m.stat_term_with_queue_behind > 0 && m.stat_discarded_zombie > 0
    {
        rep.nt("C02");
    }
    if m.stat_multi_term_requests > 0 || m.stat_held_dropped > 0 {
        rep.nt("C03");
    }
    if s.shared_owner_drops > 0 || m.stat_tree_depth2_term > 0 || (s.slab_children >= 2 && s.causes_seen.iter().sum::<u32>() >= 1) {
        rep.nt("C04");
    }
    if s.rets_abandoned_special > 0 || (m.stat_discarded_zombie > 0 && !h.rets.is_empty()) || m.stat_held_dropped > 0 && !h.rets.is_empty() {
        rep.nt("C05");
    }
    if m.stat_lazy_deferred > 0 && m.stat_idle_ran_with_more > 0 {
        rep.nt("C06");
    }
    if m.stat_nonadvancing_run_with_work > 0 && m.stat_idle_in_advancing_run > 0 {
        rep.nt("C15");
    }
    if (s.max_pending_bytes > 2048 || s.crossed_recreate > 0) && s.clone_drop_ops >= 20 || s.weak_freed_after_term > 0 && s.clone_drop_ops >= 5 {
        rep.nt("C16");
    }
    rep.trace_hash = h.hash;
    rep.events = h.nev;
}

/// Run a hand-written program (regression scenarios)
pub fn run_prog(prog: Prog, trace: bool, strict: bool) -> CaseReport {
    let opts = crate::Opts { trace, strict, ..Default::default() };
    let prog = Rc::new(prog);
    let base = crate::alloc::live();
    let mut rep = execute_prog(prog.clone(), &opts);
    let mut leaked = crate::alloc::live() - base - rep.allocs();
    if leaked != 0 {
        // confirm by re-execution (lazily initialised process singletons allocate once)
        let base2 = crate::alloc::live();
        let rep2 = execute_prog(prog.clone(), &opts);
        leaked = crate::alloc::live() - base2 - rep2.allocs();
        drop(rep2);
    }
    drop(prog);
    if leaked != 0 {
        rep.viol(
            &["C16"],
            "alloc-balance",
            format!("{} heap allocation(s) are still live after the Stakker and every reference were dropped", leaked),
        );
    }
    rep
}

fn execute(bytes: &[u8], opts: &crate::Opts) -> CaseReport {
    let prog = Rc::new(super::decode(bytes, &opts.focus, opts.size));
    LOG_SEED.with(|s| s.set(crate::fnv(bytes)));
    execute_prog(prog, opts)
}

fn execute_prog(prog: Rc<Prog>, opts: &crate::Opts) -> CaseReport {
    let mut hxv = Box::new(Hx {
        mon: Monitor::new(),
        rep: CaseReport::default(),
        dead: false,
        prog: prog.clone(),
        trace: opts.trace,
        strict: opts.strict,
        matrix: opts.matrix,
        info: Vec::with_capacity(64),
        gbag: Vec::new(),
        arefs: Vec::new(),
        rets: Vec::new(),
        timer_keys: Vec::new(),
        msgs: Vec::new(),
        live_handles: 0,
        now_hm: 0,
        t0: inst_hm(0),
        hash: 0xcbf29ce484222325,
        nev: 0,
        ret_bracket: Vec::new(),
        stats: Stats::default(),
        last_recreate_hm: 0,
        fwd_bodies: Vec::new(),
        op_count: 0,
        weak_backref: false,
        logs: Default::default(),
        seed: LOG_SEED.with(|s| s.get()),
    });
    if opts.trace {
        hxv.rep.trace.push("program:".into());
        for l in super::describe(&prog) {
            hxv.rep.trace.push(format!("  {}", l));
        }
        hxv.rep.trace.push("execution:".into());
    }
    HX.with(|c| *c.borrow_mut() = Some(hxv));
    let r = crate::pcatch::catch(|| run_top(&prog));
    if r.is_ok() {
        super::logchk::final_check();
    }
    let mut hxv = HX.with(|c| c.borrow_mut().take()).unwrap();
    match r {
        Ok(()) => summarize(&mut hxv),
        Err(msg) => {
            // a panic inside the runtime (or a broken harness invariant) fails every property it can affect
            hxv.dead = false;
            hxv.viol(&["C01", "C02", "C03", "C04", "C05", "C06", "C16"], "panic", format!("panic while executing the program: {}", msg));
            // the harness context may hold handles whose Drop wants the context: reinstall while dropping
        }
    }
    let rep = std::mem::take(&mut hxv.rep);
    // dropping what is left may run wrappers' Drop handlers, which need the context
    hxv.dead = true;
    HX.with(|c| *c.borrow_mut() = Some(hxv));
    let _ = crate::pcatch::catch(move || {
        // drop whatever is left (normally nothing); drops may create more, so iterate
        for _ in 0..10_000 {
            let (g, r, b) = hx(|h| {
                let b = h.info.iter_mut().find_map(|i| i.bag.take());
                (std::mem::take(&mut h.gbag), std::mem::take(&mut h.arefs), b)
            });
            let done = g.is_empty() && r.is_empty() && b.is_none();
            drop((g, r, b));
            if done {
                break;
            }
        }
        // whatever those drops deferred must not survive into the next case
        let s = Stakker::new(inst_hm(0));
        drop(s);
    });
    let hxv = HX.with(|c| c.borrow_mut().take());
    drop(hxv);
    rep
}

pub fn run_case(bytes: &[u8], opts: &crate::Opts) -> CaseReport {
    let base = crate::alloc::live();
    let mut rep = execute(bytes, opts);
    let leaked = crate::alloc::live() - base - rep.allocs();
    if leaked != 0 && rep.violations.is_empty() {
        // confirm by immediate re-execution (lazily initialised process singletons allocate once)
        let base2 = crate::alloc::live();
        let rep2 = execute(bytes, opts);
        let leaked2 = crate::alloc::live() - base2 - rep2.allocs();
        drop(rep2);
        if leaked2 != 0 {
            rep.viol(
                &["C16"],
                "alloc-balance",
                format!("{} heap allocation(s) are still live after the Stakker and every reference were dropped ({} on re-execution)", leaked, leaked2),
            );
        }
    }
    rep
}
