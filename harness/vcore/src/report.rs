//! What one executed case reports back to a driver.

#[derive(Clone, Debug)]
pub struct Violation {
    /// Property ids this rule decides (a check for P reports it iff P is listed)
    pub props: Vec<&'static str>,
    /// Short stable rule name (used as known-finding signature key)
    pub rule: &'static str,
    pub msg: String,
}

#[derive(Clone, Debug, Default)]
pub struct CaseReport {
    pub violations: Vec<Violation>,
    /// Properties for which this case is non-trivial by that property's rule
    pub nontrivial: Vec<&'static str>,
    /// Case-class labels, for the histogram in the evidence
    pub classes: Vec<&'static str>,
    /// Signatures excluded by construction (known findings), with counts
    pub excluded: Vec<&'static str>,
    /// Human-readable trace of the case (only when Opts::trace)
    pub trace: Vec<String>,
    /// Number of operations executed (work measure)
    pub ops: u64,
    /// Hash and length of the observable event trace (compared across feature sets)
    pub trace_hash: u64,
    pub events: u64,
}

impl CaseReport {
    pub fn viol(&mut self, props: &[&'static str], rule: &'static str, msg: String) {
        // Keep only the first few (at most 2 per rule, so that a repeating rule cannot crowd out
        // a different one); after the first one the model may be out of sync
        if self.violations.len() < 12 && self.violations.iter().filter(|v| v.rule == rule).count() < 2 {
            self.violations.push(Violation {
                props: props.to_vec(),
                rule,
                msg,
            });
        }
    }
    pub fn class(&mut self, c: &'static str) {
        if !self.classes.contains(&c) {
            self.classes.push(c);
        }
    }
    pub fn nt(&mut self, p: &'static str) {
        if !self.nontrivial.contains(&p) {
            self.nontrivial.push(p);
        }
    }
    /// Number of live heap allocations owned by this report
    pub fn allocs(&self) -> isize {
        let mut n = 0isize;
        n += (self.violations.capacity() > 0) as isize;
        for v in &self.violations {
            n += (v.props.capacity() > 0) as isize + (v.msg.capacity() > 0) as isize;
        }
        n += (self.nontrivial.capacity() > 0) as isize;
        n += (self.classes.capacity() > 0) as isize;
        n += (self.excluded.capacity() > 0) as isize;
        n += (self.trace.capacity() > 0) as isize;
        for t in &self.trace {
            n += (t.capacity() > 0) as isize;
        }
        n
    }
    pub fn violates(&self, prop: &str) -> Option<&Violation> {
        self.violations.iter().find(|v| v.props.iter().any(|p| *p == prop))
    }
}

#[derive(Clone, Debug)]
pub struct Opts {
    /// Record a readable trace
    pub trace: bool,
    /// Property the generator weights are tuned for ("" = neutral)
    pub focus: String,
    /// Size class: 0 = quick, 1 = thorough (larger histories)
    pub size: u32,
    /// Strict mode (replay): known-finding signatures are not excluded
    pub strict: bool,
    /// Feature-matrix mode (E6): no deferral after the Stakker is gone (where closures end up
    /// then differs per deferrer by design), so abrupt drops only when nothing can defer later
    pub matrix: bool,
}

impl Default for Opts {
    fn default() -> Self {
        Self {
            trace: false,
            focus: String::new(),
            size: 0,
            strict: false,
            matrix: false,
        }
    }
}
