#!/usr/bin/env python3
"""mkmutant.py NAME FILE OLD NEW [FILE OLD NEW ...]: make a planted-change patch
under /verif/mutants/NAME.diff (textual replacement in /repo, saved as git diff,
then reverted).  Refuses if OLD is not found exactly once."""
import sys, subprocess
name = sys.argv[1]
trip = sys.argv[2:]
assert len(trip) % 3 == 0
subprocess.check_call(["git", "-C", "/repo", "diff", "--quiet"])
for i in range(0, len(trip), 3):
    f, old, new = trip[i:i+3]
    p = "/repo/" + f
    s = open(p).read()
    if s.count(old) != 1:
        print(f"OLD found {s.count(old)} times in {f}"); subprocess.call(["git","-C","/repo","checkout","--","."]); sys.exit(1)
    open(p, "w").write(s.replace(old, new))
d = subprocess.check_output(["git", "-C", "/repo", "diff"], text=True)
open(f"/verif/mutants/{name}.diff", "w").write(d)
subprocess.check_call(["git", "-C", "/repo", "checkout", "--", "."])
print("wrote", name)
