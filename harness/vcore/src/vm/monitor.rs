//! Lock-step reference monitor for the program VM (E1).
//!
//! The VM reports *actions* at the moment it performs them through the public
//! API ("item i submitted to the main queue", "owner of actor a dropped", "run
//! begins") and *observations* as the runtime produces them ("item i started",
//! "item i dropped un-run", "notifier of a got cause k").  The monitor keeps
//! the specification-level state only: abstract FIFOs of item ids, per-actor
//! Prep(held)/Ready/Zombie, owner counts, pending termination effects.  Every
//! observation must be explained by the abstract state; what the runtime owes
//! (quiescence, terminations, exactly-once resolution) is checked at run end
//! and at the end of the case.  It never looks inside the crate.

use std::collections::VecDeque;

pub type ItemId = u32;
pub type ActorId = u32;

#[derive(Clone, Copy, PartialEq, Eq, Debug)]
pub enum Cause {
    Stopped,
    Failed(u32),
    Killed(u32),
    Dropped,
}

#[derive(Clone, Copy, PartialEq, Eq, Debug)]
pub enum AState {
    Prep,
    Ready,
    Zombie,
}

#[derive(Clone, Copy, PartialEq, Eq, Debug)]
pub enum Q {
    Main,
    Lazy,
    Idle,
    Timer,
}

#[derive(Clone, Copy, PartialEq, Eq, Debug)]
pub enum Kind {
    /// plain FnOnce(&mut Stakker)
    Closure,
    /// Ready-style call to an actor (call!, Fwd/Ret delivery, held calls)
    Call(ActorId),
    /// Prep-style call
    PrepCall(ActorId),
}

#[derive(Clone, Copy, PartialEq, Eq, Debug)]
pub enum IState {
    /// created but not yet handed to the runtime (tag of an unused Ret/Fwd)
    Latent,
    Pending,
    Held,
    Running,
    Ran,
    Dropped,
}

#[derive(Clone, Debug)]
pub struct MItem {
    pub kind: Kind,
    pub q: Q,
    pub st: IState,
    /// submitted while a lazy item of this lazy-phase was running (C06 b)
    pub lazy_phase: u32,
    /// drop generation when submitted during Stakker drop (0 = before)
    pub gen: u32,
    /// submitted from a Drop handler of a lazy/idle/timer item while the Stakker fields were
    /// being dropped: the documented "deferred after the Stakker is gone" case
    pub after_gone: bool,
    pub expiry: i64,
    pub submitted_in_run: u32,
    /// submission depth: 0 = from the top level, n+1 = from an item of depth n
    pub depth: u32,
    /// the item is the delivery of a ret_to!-style Ret: losing it is also a C05 matter
    pub ret_tag: bool,
    /// submitted while a later Stakker exists on this thread (by Drop handlers of leftovers
    /// discarded in Stakker::new): legitimately belongs to that Stakker
    pub second: bool,
}

/// Entries of the abstract main queue
#[derive(Clone, Debug, PartialEq)]
pub enum MQ {
    Item(ItemId),
    /// termination because the last owner went away
    Term(ActorId),
    /// kill!: holds one extra owner until the entry is consumed
    Kill(ActorId, u32),
    /// slab bookkeeping call on parent, releases the slab's owner of child
    SlabRemove(ActorId, ActorId),
    /// timers that became due in this run (order among them is C19's business)
    Timers(Vec<ItemId>),
    /// owners released by a dying slab parent (slab iteration order is not modelled)
    TermBatch(Vec<ActorId>),
}

#[derive(Clone, Debug)]
pub struct MActor {
    pub st: AState,
    pub held: VecDeque<ItemId>,
    pub owners: i32,
    /// first stop/fail requested by the method currently running
    pub die: Option<Cause>,
    pub in_method: u32,
    pub notified: Option<Option<Cause>>,
    pub value_dropped: bool,
    pub had_value: bool,
    pub slab_parent: Option<ActorId>,
    pub slab_children: Vec<ActorId>,
    pub term_requests: u32,
    pub created_in_run: u32,
    /// a Prep method returned Some(value) but also requested stop/fail: the value is never
    /// installed; only its exactly-once drop is asserted
    pub orphan_value: bool,
}

#[derive(Clone, Debug)]
struct PendingTerm {
    aid: ActorId,
    cause: Cause,
    need_value_drop: bool,
    held_to_drop: VecDeque<ItemId>,
}

#[derive(Clone, Debug)]
pub struct Viol {
    pub props: Vec<&'static str>,
    pub rule: &'static str,
    pub msg: String,
}

type R = Result<(), Viol>;

fn v(props: &[&'static str], rule: &'static str, msg: String) -> Viol {
    Viol {
        props: props.to_vec(),
        rule,
        msg,
    }
}

pub struct Monitor {
    pub items: Vec<MItem>,
    pub actors: Vec<MActor>,
    pub main: VecDeque<MQ>,
    pub lazy: VecDeque<ItemId>,
    pub idle: VecDeque<ItemId>,
    pub timers: Vec<ItemId>,
    pub now: i64,
    pub prev_now: i64,
    pub in_run: bool,
    pub run_idx: u32,
    run_idle_flag: bool,
    run_events: u32,
    idle_ran: bool,
    /// stack of running items
    pub stack: Vec<ItemId>,
    /// flush obligations: held calls of an actor that just became Ready
    flush: Vec<(ActorId, VecDeque<ItemId>)>,
    pterm: Option<PendingTerm>,
    due_after_idle: bool,
    batch_left: usize,
    lazy_phase: u32,
    main_since_lazy: bool,
    /// Stakker drop in progress / done
    pub dropping: bool,
    pub gone: bool,
    pub second_phase: bool,
    drop_gen: u32,
    /// item whose Drop handler is currently running (stack)
    drop_stack: Vec<ItemId>,
    /// inside timer_del of this item
    deleting_timer: Option<ItemId>,
    /// inside the drop of an unused Ret/Fwd whose tag item may be dropped
    pub abandon_depth: u32,
    // statistics
    pub stat_reentrant_depth: u32,
    pub stat_held_flushed: u32,
    pub stat_held_dropped: u32,
    pub stat_discarded_zombie: u32,
    pub stat_term_with_queue_behind: u32,
    pub stat_multi_term_requests: u32,
    pub stat_tree_depth2_term: u32,
    pub stat_lazy_deferred: u32,
    pub stat_idle_ran_with_more: u32,
    pub stat_drop_pending: u32,
    pub stat_drop_handler_submit: u32,
    pub stat_nonadvancing_run_with_work: u32,
    pub stat_idle_in_advancing_run: u32,
    /// actor values dropped inside Stakker::drop because the last reference (a queued closure)
    /// was discarded there: the actor is freed without ever being terminated
    pub stat_freed_in_stakker_drop: u32,
    pub stat_max_drop_gen: u32,
}

impl Monitor {
    pub fn new() -> Self {
        Self {
            items: Vec::with_capacity(64),
            actors: Vec::with_capacity(8),
            main: VecDeque::with_capacity(64),
            lazy: VecDeque::with_capacity(16),
            idle: VecDeque::with_capacity(16),
            timers: Vec::with_capacity(16),
            now: 0,
            prev_now: 0,
            in_run: false,
            run_idx: 0,
            run_idle_flag: false,
            run_events: 0,
            idle_ran: false,
            stack: Vec::with_capacity(16),
            flush: Vec::with_capacity(4),
            pterm: None,
            due_after_idle: false,
            batch_left: 0,
            lazy_phase: 0,
            main_since_lazy: true,
            dropping: false,
            gone: false,
            second_phase: false,
            drop_gen: 0,
            drop_stack: Vec::with_capacity(8),
            deleting_timer: None,
            abandon_depth: 0,
            stat_reentrant_depth: 0,
            stat_held_flushed: 0,
            stat_held_dropped: 0,
            stat_discarded_zombie: 0,
            stat_term_with_queue_behind: 0,
            stat_multi_term_requests: 0,
            stat_tree_depth2_term: 0,
            stat_lazy_deferred: 0,
            stat_idle_ran_with_more: 0,
            stat_drop_pending: 0,
            stat_drop_handler_submit: 0,
            stat_nonadvancing_run_with_work: 0,
            stat_idle_in_advancing_run: 0,
            stat_freed_in_stakker_drop: 0,
            stat_max_drop_gen: 0,
        }
    }

    // ------------------------------------------------------------------
    // Actions

    pub fn new_item(&mut self, kind: Kind, q: Q) -> ItemId {
        let id = self.items.len() as ItemId;
        self.items.push(MItem {
            kind,
            q,
            st: IState::Latent,
            lazy_phase: 0,
            gen: 0,
            after_gone: false,
            expiry: 0,
            submitted_in_run: self.run_idx,
            depth: 0,
            ret_tag: false,
            second: false,
        });
        id
    }

    pub fn new_actor(&mut self, slab_parent: Option<ActorId>) -> ActorId {
        let id = self.actors.len() as ActorId;
        self.actors.push(MActor {
            st: AState::Prep,
            held: VecDeque::new(),
            owners: 1,
            die: None,
            in_method: 0,
            notified: None,
            value_dropped: false,
            had_value: false,
            slab_parent,
            slab_children: Vec::new(),
            term_requests: 0,
            created_in_run: self.run_idx,
            orphan_value: false,
        });
        if let Some(p) = slab_parent {
            self.actors[p as usize].slab_children.push(id);
        }
        id
    }

    fn in_lazy_item(&self) -> bool {
        // The outermost running item decides: work created (transitively, synchronously) by a
        // lazy item belongs to the current lazy phase
        self.stack
            .first()
            .map(|i| self.items[*i as usize].q == Q::Lazy)
            .unwrap_or(false)
    }

    fn submit_common(&mut self, id: ItemId) {
        let in_lazy = self.in_lazy_item();
        let phase = self.lazy_phase;
        let gen = self.drop_gen_for_submit();
        let after_gone = self.after_gone_for_submit();
        let run_idx = self.run_idx;
        let it = &mut self.items[id as usize];
        it.st = IState::Pending;
        it.lazy_phase = if in_lazy { phase } else { 0 };
        it.gen = gen;
        it.after_gone = after_gone && !self.second_phase;
        it.second = self.second_phase;
        it.submitted_in_run = run_idx;
        let depth = match (self.stack.last(), self.drop_stack.last()) {
            (_, Some(i)) | (Some(i), None) => self.items[*i as usize].depth + 1,
            _ => 0,
        };
        self.items[id as usize].depth = depth;
        if depth > self.stat_reentrant_depth {
            self.stat_reentrant_depth = depth;
        }
    }

    fn drop_gen_for_submit(&mut self) -> u32 {
        if !self.dropping && !self.gone {
            return 0;
        }
        let g = match self.drop_stack.last() {
            Some(i) => self.items[*i as usize].gen + 1,
            None => self.drop_gen + 1,
        };
        if g > self.stat_max_drop_gen {
            self.stat_max_drop_gen = g;
        }
        g
    }

    fn after_gone_for_submit(&self) -> bool {
        if self.gone {
            return true;
        }
        if !self.dropping {
            return false;
        }
        match self.drop_stack.first() {
            Some(i) => {
                let it = &self.items[*i as usize];
                it.q != Q::Main || it.after_gone
            }
            None => false,
        }
    }

    /// An item is pushed onto the main queue now
    pub fn submit_main(&mut self, id: ItemId) {
        self.submit_common(id);
        self.items[id as usize].q = Q::Main;
        if !self.drop_stack.is_empty() {
            self.stat_drop_handler_submit += 1;
        }
        if self.in_lazy_item() {
            self.stat_lazy_deferred += 1;
        }
        self.main.push_back(MQ::Item(id));
    }

    pub fn submit_lazy(&mut self, id: ItemId) {
        self.submit_common(id);
        self.items[id as usize].q = Q::Lazy;
        self.lazy.push_back(id);
    }

    pub fn submit_idle(&mut self, id: ItemId) {
        self.submit_common(id);
        self.items[id as usize].q = Q::Idle;
        self.idle.push_back(id);
    }

    pub fn submit_timer(&mut self, id: ItemId, expiry: i64) {
        self.submit_common(id);
        let it = &mut self.items[id as usize];
        it.q = Q::Timer;
        it.expiry = expiry;
        self.timers.push(id);
    }

    /// Owner count of an actor changes by the VM's own doing
    pub fn owner_inc(&mut self, a: ActorId) {
        self.actors[a as usize].owners += 1;
    }

    /// An owning handle is being dropped (reported just before the real drop)
    pub fn owner_dec(&mut self, a: ActorId) {
        let act = &mut self.actors[a as usize];
        act.owners -= 1;
        if act.owners == 0 {
            // The termination takes the drop's place in the queue
            if act.st != AState::Zombie && !self.main.is_empty() {
                self.stat_term_with_queue_behind += 1;
            }
            self.main.push_back(MQ::Term(a));
        }
    }

    pub fn kill_queued(&mut self, a: ActorId, tag: u32) {
        self.actors[a as usize].owners += 1;
        self.actors[a as usize].term_requests += 1;
        self.main.push_back(MQ::Kill(a, tag));
    }

    /// stop!/fail! inside the running method of actor a: first request wins
    pub fn die_request(&mut self, a: ActorId, cause: Cause) {
        let act = &mut self.actors[a as usize];
        act.term_requests += 1;
        if act.die.is_none() {
            act.die = Some(cause);
        }
    }

    pub fn run_begin(&mut self, now: i64, idle: bool) {
        self.in_run = true;
        self.run_idx += 1;
        self.run_idle_flag = idle;
        self.run_events = 0;
        self.idle_ran = false;
        self.prev_now = self.now;
        if now > self.now {
            self.now = now;
            // due timers go behind everything already queued; if an idle item runs first, its
            // submissions (including timers it adds) precede the evaluation
            if idle && !self.idle.is_empty() {
                self.stat_idle_in_advancing_run += 1;
                self.due_after_idle = true;
            } else {
                self.push_due();
            }
        } else if !self.main.is_empty() || !self.lazy.is_empty() {
            self.stat_nonadvancing_run_with_work += 1;
        }
        self.main_since_lazy = true;
    }

    fn push_due(&mut self) {
        let now = self.now;
        let items = &self.items;
        let mut due: Vec<ItemId> = Vec::new();
        self.timers.retain(|t| {
            if items[*t as usize].expiry <= now {
                due.push(*t);
                false
            } else {
                true
            }
        });
        if !due.is_empty() {
            self.main.push_back(MQ::Timers(due));
        }
    }

    // ------------------------------------------------------------------
    // Silent processing

    /// Can the front entry be consumed without any observable effect, given the state?
    /// If so consume it and apply its (invisible) effect.
    fn consume_silent_front(&mut self) -> bool {
        let front = match self.main.front() {
            Some(f) => f.clone(),
            None => return false,
        };
        match front {
            MQ::Item(id) => {
                let it = &self.items[id as usize];
                if let Kind::Call(a) = it.kind {
                    if self.actors[a as usize].st == AState::Prep {
                        self.main.pop_front();
                        self.items[id as usize].st = IState::Held;
                        self.actors[a as usize].held.push_back(id);
                        return true;
                    }
                }
                false
            }
            MQ::Term(a) => {
                if self.actors[a as usize].st == AState::Zombie {
                    self.main.pop_front();
                    true
                } else {
                    false
                }
            }
            MQ::Kill(a, _) => {
                if self.actors[a as usize].st == AState::Zombie {
                    self.main.pop_front();
                    // the kill closure's extra owner is released when it finishes
                    self.owner_dec(a);
                    true
                } else {
                    false
                }
            }
            MQ::SlabRemove(p, c) => {
                self.main.pop_front();
                if self.actors[p as usize].st == AState::Ready {
                    let ch = &mut self.actors[p as usize].slab_children;
                    if let Some(pos) = ch.iter().position(|x| *x == c) {
                        ch.remove(pos);
                        self.owner_dec(c);
                    }
                }
                true
            }
            MQ::Timers(ref t) => {
                if t.is_empty() {
                    self.main.pop_front();
                    true
                } else {
                    false
                }
            }
            MQ::TermBatch(ref b) => {
                let all_z = b.iter().all(|a| self.actors[*a as usize].st == AState::Zombie);
                if all_z {
                    self.main.pop_front();
                    true
                } else {
                    false
                }
            }
        }
    }

    fn describe_front(&self) -> String {
        match self.main.front() {
            None => "<empty>".into(),
            Some(MQ::Item(i)) => format!("item i{} ({:?})", i, self.items[*i as usize].kind),
            Some(o) => format!("{:?}", o),
        }
    }

    fn order_props(&self, blocked: &MQ, target_kind: Option<Kind>) -> Vec<&'static str> {
        // Two calls addressed to the same actor: C02; otherwise main-queue order: C01
        let ba = match blocked {
            MQ::Item(i) => match self.items[*i as usize].kind {
                Kind::Call(a) | Kind::PrepCall(a) => Some(a),
                Kind::Closure => None,
            },
            MQ::Term(_) | MQ::TermBatch(_) => return vec!["C04"],
            MQ::Kill(..) => return vec!["C03"],
            MQ::Timers(_) => return vec!["C01", "C06"],
            MQ::SlabRemove(..) => return vec!["C04"],
        };
        let ta = match target_kind {
            Some(Kind::Call(a)) | Some(Kind::PrepCall(a)) => Some(a),
            _ => None,
        };
        match (ba, ta) {
            (Some(x), Some(y)) if x == y => vec!["C02"],
            (Some(_), _) => vec!["C01", "C02"],
            _ => vec!["C01"],
        }
    }

    /// Advance the abstract main queue until `pred` matches the front entry
    fn advance_main(&mut self, what: &str, target_kind: Option<Kind>, pred: &dyn Fn(&MQ) -> bool) -> R {
        loop {
            match self.main.front() {
                None => {
                    return Err(v(
                        &["C01"],
                        "not-queued",
                        format!("{}, but the abstract main queue is empty", what),
                    ))
                }
                Some(f) if pred(f) => return Ok(()),
                Some(_) => {}
            }
            if !self.consume_silent_front() {
                let f = self.main.front().unwrap().clone();
                let props = self.order_props(&f, target_kind);
                return Err(v(
                    &props,
                    "order",
                    format!(
                        "{}, but {} was submitted earlier and has not been processed",
                        what,
                        self.describe_front()
                    ),
                ));
            }
        }
    }

    // ------------------------------------------------------------------
    // Obligations that must be discharged before anything else happens

    fn check_no_obligations(&mut self, what: &str) -> R {
        if let Some(pt) = &self.pterm {
            return Err(v(
                &["C03"],
                "termination-incomplete",
                format!(
                    "{}, but the termination of actor a{} ({:?}) has not completed (value drop pending: {}, held calls to discard: {}, notifier pending)",
                    what,
                    pt.aid,
                    pt.cause,
                    pt.need_value_drop,
                    pt.held_to_drop.len()
                ),
            ));
        }
        // A finished flush level is popped lazily
        while let Some((_, q)) = self.flush.last() {
            if q.is_empty() {
                self.flush.pop();
            } else {
                break;
            }
        }
        Ok(())
    }

    // ------------------------------------------------------------------
    // Observations

    /// An item runs inside a later Stakker created on this thread after the case's Stakker was
    /// dropped.  Only items deferred while that later Stakker existed may do so; something deferred
    /// after the first Stakker was gone must never execute (it is discarded by Stakker::new).
    pub fn item_start_second(&mut self, id: ItemId) -> R {
        let it = &self.items[id as usize];
        if !it.second {
            return Err(v(
                &["C01", "C18"],
                "ran-after-stakker-drop",
                format!(
                    "item i{} ({:?}) was deferred {} and was executed by a later Stakker on the same thread",
                    id,
                    it.kind,
                    if it.after_gone { "after its Stakker was dropped" } else { "to a Stakker that was dropped with it pending" }
                ),
            ));
        }
        match it.st {
            IState::Pending | IState::Held => {}
            s => return Err(v(&["C01", "C16"], "ran-twice", format!("item i{} ran in state {:?}", id, s))),
        }
        self.remove_from_queues(id);
        self.items[id as usize].st = IState::Ran;
        Ok(())
    }

    /// A closure / method body begins executing.  `now_seen` is Core::now() inside it.
    pub fn item_start(&mut self, id: ItemId, now_seen: i64) -> R {
        let tag = self.items[id as usize].ret_tag;
        self.item_start_inner(id, now_seen).map_err(|mut e| {
            // the delivery of a ret_to!-style Ret ran when it must not (or out of turn)
            if tag && !e.props.contains(&"C05") {
                e.props.push("C05");
            }
            e
        })
    }

    fn item_start_inner(&mut self, id: ItemId, now_seen: i64) -> R {
        let it = self.items[id as usize].clone();
        let what = format!("item i{} ({:?}, {:?} queue) started", id, it.kind, it.q);
        if self.dropping || self.gone {
            return Err(v(
                &["C01", "C18"],
                "ran-after-stakker-drop",
                format!("{} after drop(stakker) began", what),
            ));
        }
        match it.st {
            IState::Pending | IState::Held => {}
            IState::Running | IState::Ran => {
                return Err(v(&["C01", "C16"], "ran-twice", format!("{} a second time", what)))
            }
            IState::Dropped => {
                return Err(v(
                    &["C01", "C16"],
                    "ran-after-drop",
                    format!("{} after it had been dropped", what),
                ))
            }
            IState::Latent => {
                return Err(v(
                    &["C01"],
                    "ran-unsubmitted",
                    format!("{} although it was never submitted", what),
                ))
            }
        }
        if let Some(pt) = &self.pterm {
            if pt.held_to_drop.contains(&id) {
                return Err(v(
                    &["C02", "C03"],
                    "held-call-ran-on-termination",
                    format!(
                        "{} although actor a{} terminated ({:?}) while still holding it in Prep: it must be discarded, never run",
                        what, pt.aid, pt.cause
                    ),
                ));
            }
        }
        self.check_no_obligations(&what).map_err(|mut e| {
            // a further call to the actor that has asked to terminate runs before the termination
            // took effect: also a matter of C02 (stop/fail takes effect at its queue position)
            if let (Some(pt), Kind::Call(a) | Kind::PrepCall(a)) = (&self.pterm, it.kind) {
                if pt.aid == a && !e.props.contains(&"C02") {
                    e.props.push("C02");
                }
            }
            e
        })?;
        self.run_events += 1;
        if it.q != Q::Idle {
            if std::mem::take(&mut self.due_after_idle) {
                self.push_due();
            }
        }
        if !self.in_run && it.kind != Kind::Closure {
            // direct synchronous invocations (query) are reported through query_start instead
        }
        if !self.in_run {
            return Err(v(
                &["C01", "C06"],
                "ran-outside-run",
                format!("{} outside Stakker::run", what),
            ));
        }
        // C15: uniform now
        if it.q == Q::Idle {
            if now_seen != self.now && now_seen != self.prev_now {
                return Err(v(
                    &["C15"],
                    "now-idle",
                    format!(
                        "{}: idle item sees now={} ms, expected previous {} or new {}",
                        what, now_seen, self.prev_now, self.now
                    ),
                ));
            }
        } else if now_seen != self.now {
            return Err(v(
                &["C15"],
                "now-uniform",
                format!(
                    "{}: sees now={} ms but the greatest instant passed to run/new is {} ms",
                    what, now_seen, self.now
                ),
            ));
        }
        if it.st == IState::Held {
            // must be the front of the innermost active flush
            let a = match it.kind {
                Kind::Call(a) => a,
                _ => unreachable!(),
            };
            match self.flush.last_mut() {
                Some((fa, q)) if *fa == a && q.front() == Some(&id) => {
                    q.pop_front();
                    self.stat_held_flushed += 1;
                }
                _ => {
                    return Err(v(
                        &["C02"],
                        "held-order",
                        format!(
                            "{} but it is a held call of a{} and is not the next held call to flush (actor state {:?})",
                            what, a, self.actors[a as usize].st
                        ),
                    ))
                }
            }
            if self.actors[a as usize].st != AState::Ready {
                return Err(v(
                    &["C02"],
                    "held-ran-not-ready",
                    format!("{} while a{} is {:?}", what, a, self.actors[a as usize].st),
                ));
            }
        } else {
            // Held calls of an actor that just became Ready come before anything else
            if let Some((fa, q)) = self.flush.last() {
                if !q.is_empty() && self.actors[*fa as usize].st == AState::Ready {
                    return Err(v(
                        &["C02"],
                        "flush-skipped",
                        format!(
                            "{} but a{} became Ready and {} held call(s) (next: i{}) have not run yet",
                            what,
                            fa,
                            q.len(),
                            q[0]
                        ),
                    ));
                }
            }
            match it.q {
                Q::Main => {
                    self.advance_main(&what, Some(it.kind), &|f| *f == MQ::Item(id))?;
                    self.main.pop_front();
                    self.main_since_lazy = true;
                    self.batch_left = 0;
                }
                Q::Timer => {
                    self.advance_main(&what, None, &|f| matches!(f, MQ::Timers(t) if t.contains(&id)))
                        .map_err(|mut e| {
                            if e.rule == "not-queued" {
                                e.props = vec!["C07", "C01"];
                                e.msg = format!("{} but the timer is not due in the model (expiry {} ms, now {} ms)", what, it.expiry, self.now);
                            }
                            e
                        })?;
                    if let Some(MQ::Timers(t)) = self.main.front_mut() {
                        t.retain(|x| *x != id);
                    }
                    self.main_since_lazy = true;
                }
                Q::Lazy => {
                    // C06: lazy after main
                    if self.lazy.front() != Some(&id) {
                        return Err(v(
                            &["C06"],
                            "lazy-order",
                            format!(
                                "{} but the oldest pending lazy item is {:?}",
                                what,
                                self.lazy.front()
                            ),
                        ));
                    }
                    if self.batch_left == 0 {
                        // a new lazy batch begins: everything submitted before it has been
                        // processed (calls to Prep actors silently held, dead terminations skipped)
                        self.lazy_phase += 1;
                        self.batch_left = self.lazy.len();
                        while self.consume_silent_front() {}
                    }
                    self.batch_left -= 1;
                    self.main_since_lazy = false;
                    let phase = self.lazy_phase;
                    for e in self.main.iter() {
                        let ok = match e {
                            MQ::Item(i) => self.items[*i as usize].lazy_phase == phase,
                            // invisible bookkeeping entries created by drops inside lazy items
                            _ => true,
                        };
                        if !ok {
                            return Err(v(
                                &["C06"],
                                "lazy-before-main",
                                format!(
                                    "{} while main-queue entry {:?} is pending and was not submitted by a lazy item of this lazy phase",
                                    what, e
                                ),
                            ));
                        }
                    }
                    self.lazy.pop_front();
                }
                Q::Idle => {
                    if !self.run_idle_flag {
                        return Err(v(
                            &["C06"],
                            "idle-without-flag",
                            format!("{} in a run called with idle=false", what),
                        ));
                    }
                    if self.idle_ran {
                        return Err(v(
                            &["C06"],
                            "idle-twice",
                            format!("{}: second idle item in one run call", what),
                        ));
                    }
                    if self.run_events != 1 {
                        return Err(v(
                            &["C06"],
                            "idle-not-first",
                            format!("{} but it is not the first thing this run call did", what),
                        ));
                    }
                    if self.idle.front() != Some(&id) {
                        return Err(v(
                            &["C06"],
                            "idle-order",
                            format!("{} but the oldest idle item is {:?}", what, self.idle.front()),
                        ));
                    }
                    self.idle.pop_front();
                    self.idle_ran = true;
                    if !self.idle.is_empty() {
                        self.stat_idle_ran_with_more += 1;
                    }
                }
            }
            // lifecycle gating
            match it.kind {
                Kind::Closure => {}
                Kind::Call(a) => {
                    let st = self.actors[a as usize].st;
                    if st != AState::Ready {
                        return Err(v(
                            &["C02"],
                            "ready-method-wrong-state",
                            format!("{} but a{} is {:?}", what, a, st),
                        ));
                    }
                }
                Kind::PrepCall(a) => {
                    let st = self.actors[a as usize].st;
                    if st != AState::Prep {
                        return Err(v(
                            &["C02"],
                            "prep-method-wrong-state",
                            format!("{} but a{} is {:?}", what, a, st),
                        ));
                    }
                }
            }
        }
        if let Kind::Call(a) | Kind::PrepCall(a) = it.kind {
            self.actors[a as usize].in_method += 1;
            self.actors[a as usize].die = None;
        }
        self.items[id as usize].st = IState::Running;
        self.stack.push(id);
        Ok(())
    }

    /// The body finished.  For prep methods `became_ready` says Some(value) was returned.
    pub fn item_end(&mut self, id: ItemId, returned_some: bool) -> R {
        match self.stack.pop() {
            Some(t) if t == id => {}
            o => {
                return Err(v(
                    &["C01"],
                    "harness-stack",
                    format!("item i{} ended but running stack top is {:?}", id, o),
                ))
            }
        }
        self.items[id as usize].st = IState::Ran;
        if self.items[id as usize].q == Q::Idle {
            if std::mem::take(&mut self.due_after_idle) {
                self.push_due();
            }
        }
        match self.items[id as usize].kind {
            Kind::Closure => {}
            Kind::Call(a) => {
                let act = &mut self.actors[a as usize];
                act.in_method -= 1;
                if let Some(c) = act.die.take() {
                    self.begin_term(a, c);
                }
            }
            Kind::PrepCall(a) => {
                let act = &mut self.actors[a as usize];
                act.in_method -= 1;
                if let Some(c) = act.die.take() {
                    if returned_some {
                        act.orphan_value = true;
                    }
                    self.begin_term(a, c);
                } else if returned_some {
                    act.st = AState::Ready;
                    act.had_value = true;
                    let held = std::mem::take(&mut act.held);
                    self.flush.push((a, held));
                }
            }
        }
        Ok(())
    }

    fn begin_term(&mut self, a: ActorId, cause: Cause) {
        let act = &mut self.actors[a as usize];
        if act.st == AState::Zombie {
            return;
        }
        if act.term_requests >= 2 {
            self.stat_multi_term_requests += 1;
        }
        let need_value_drop = act.st == AState::Ready;
        let held = std::mem::take(&mut act.held);
        if !held.is_empty() {
            self.stat_held_dropped += held.len() as u32;
        }
        act.st = AState::Zombie;
        self.pterm = Some(PendingTerm {
            aid: a,
            cause,
            need_value_drop,
            held_to_drop: held,
        });
    }

    /// A direct kill from the top level (ActorOwn::kill*) is about to be made
    pub fn direct_kill(&mut self, a: ActorId, tag: u32) -> R {
        self.check_no_obligations("direct kill")?;
        self.actors[a as usize].term_requests += 1;
        self.begin_term(a, Cause::Killed(tag));
        Ok(())
    }

    /// The direct kill call returned: its effects must be complete
    pub fn direct_kill_done(&mut self, _a: ActorId) -> R {
        self.check_no_obligations("direct kill returned")
    }

    /// Nothing may be left half-done at this point (after a synchronous call returned)
    pub fn settled(&mut self, what: &str) -> R {
        self.check_no_obligations(what)
    }

    /// query!: a synchronous Ready-style call from outside the queues
    pub fn query_start(&mut self, id: ItemId, a: ActorId) -> R {
        self.check_no_obligations("query")?;
        let st = self.actors[a as usize].st;
        if st != AState::Ready {
            return Err(v(
                &["C02"],
                "query-ran-not-ready",
                format!("query! closure ran on a{} which is {:?}", a, st),
            ));
        }
        self.actors[a as usize].in_method += 1;
        self.actors[a as usize].die = None;
        self.items[id as usize].st = IState::Running;
        self.stack.push(id);
        Ok(())
    }

    /// An observation that belongs to the termination of actor `a` arrived, but no
    /// termination of `a` is in progress: find the queue entry that explains it.
    fn explain_term(&mut self, a: ActorId, what: &str) -> R {
        if let Some(pt) = &self.pterm {
            if pt.aid == a {
                return Ok(());
            }
            return Err(v(
                &["C03"],
                "termination-interleaved",
                format!(
                    "{} while the termination of a{} is still incomplete",
                    what, pt.aid
                ),
            ));
        }
        if self.dropping || self.gone {
            return Ok(());
        }
        if self.actors[a as usize].st == AState::Zombie {
            return Err(v(
                &["C03"],
                "terminated-twice",
                format!("{} but a{} is already a Zombie (second termination)", what, a),
            ));
        }
        self.advance_main(what, None, &|f| match f {
            MQ::Term(x) | MQ::Kill(x, _) => *x == a,
            MQ::TermBatch(b) => b.contains(&a),
            _ => false,
        })
        .map_err(|mut e| {
            if e.rule == "not-queued" {
                let owners = self.actors[a as usize].owners;
                e.props = if owners > 0 { vec!["C04", "C03"] } else { vec!["C03"] };
                e.rule = "unexplained-termination";
                e.msg = format!(
                    "{} but no stop/fail/kill/owner-drop explains it ({} owning reference(s) exist)",
                    what, owners
                );
            }
            e
        })?;
        let f = self.main.front().unwrap().clone();
        match f {
            MQ::Term(_) => {
                self.main.pop_front();
                if self.actors[a as usize].owners > 0 {
                    return Err(v(
                        &["C04"],
                        "dropped-while-owned",
                        format!("{}: terminated as Dropped while {} owner(s) exist", what, self.actors[a as usize].owners),
                    ));
                }
                self.begin_term(a, Cause::Dropped);
            }
            MQ::Kill(_, tag) => {
                self.main.pop_front();
                self.begin_term(a, Cause::Killed(tag));
                // extra owner released when the kill closure finishes (after the notification);
                // it cannot be the one that matters: the actor is a Zombie by then
                self.actors[a as usize].owners -= 1;
                if self.actors[a as usize].owners == 0 {
                    self.main.push_back(MQ::Term(a));
                }
            }
            MQ::TermBatch(_) => {
                if let Some(MQ::TermBatch(b)) = self.main.front_mut() {
                    b.retain(|x| *x != a);
                }
                self.begin_term(a, Cause::Dropped);
            }
            _ => unreachable!(),
        }
        Ok(())
    }

    /// Drop of the actor's own value observed
    pub fn value_dropped(&mut self, a: ActorId) -> R {
        let what = format!("value of actor a{} dropped", a);
        if self.actors[a as usize].orphan_value {
            self.actors[a as usize].orphan_value = false;
            return Ok(());
        }
        if self.actors[a as usize].value_dropped {
            return Err(v(&["C03", "C16"], "value-dropped-twice", format!("{} twice", what)));
        }
        if self.actors[a as usize].in_method > 0 {
            return Err(v(
                &["C03"],
                "value-dropped-in-method",
                format!("{} while one of its methods is running", what),
            ));
        }
        self.actors[a as usize].value_dropped = true;
        if (self.dropping || self.gone) && self.pterm.is_none() {
            // last reference went away during/after Stakker drop
            if self.dropping {
                self.stat_freed_in_stakker_drop += 1;
            }
            return Ok(());
        }
        self.explain_term(a, &what)?;
        match &mut self.pterm {
            Some(pt) if pt.aid == a => {
                if !pt.need_value_drop {
                    return Err(v(
                        &["C03"],
                        "value-drop-unexpected",
                        format!("{} but the actor never had a value in the model", what),
                    ));
                }
                pt.need_value_drop = false;
                Ok(())
            }
            _ => Ok(()),
        }
    }

    /// The dying parent's slab releases its owners (reported by the VM from Act::drop)
    pub fn slab_released(&mut self, parent: ActorId) {
        let ch = std::mem::take(&mut self.actors[parent as usize].slab_children);
        let mut batch = Vec::new();
        for c in ch {
            let act = &mut self.actors[c as usize];
            act.owners -= 1;
            if act.owners == 0 {
                batch.push(c);
            }
        }
        if !batch.is_empty() {
            if batch.iter().any(|c| !self.actors[*c as usize].slab_children.is_empty()) {
                self.stat_tree_depth2_term += 1;
            }
            self.main.push_back(MQ::TermBatch(batch));
        }
    }

    /// Notifier invoked: Some(cause) or None (Ret dropped un-called)
    pub fn notified(&mut self, a: ActorId, cause: Option<Cause>) -> R {
        let what = format!("notifier of actor a{} invoked with {:?}", a, cause);
        if self.actors[a as usize].notified.is_some() {
            return Err(v(
                &["C03", "C05"],
                "notified-twice",
                format!("{} but it was already invoked with {:?}", what, self.actors[a as usize].notified),
            ));
        }
        self.actors[a as usize].notified = Some(cause);
        let cause = match cause {
            None => {
                if self.dropping || self.gone {
                    return Ok(());
                }
                return Err(v(
                    &["C03"],
                    "notifier-dropped",
                    format!("{} (dropped without a cause) while the Stakker is alive", what),
                ));
            }
            Some(c) => c,
        };
        self.explain_term(a, &what)?;
        let pt = match self.pterm.take() {
            Some(pt) if pt.aid == a => pt,
            o => {
                self.pterm = o;
                return Err(v(
                    &["C03"],
                    "unexplained-notification",
                    format!("{} but no termination of it is in progress", what),
                ));
            }
        };
        if pt.need_value_drop {
            return Err(v(
                &["C03"],
                "notified-before-value-drop",
                format!("{} before the actor's own value was dropped", what),
            ));
        }
        if !pt.held_to_drop.is_empty() {
            return Err(v(
                &["C03", "C02"],
                "held-not-discarded",
                format!("{} but {} held call(s) have not been discarded", what, pt.held_to_drop.len()),
            ));
        }
        if pt.cause != cause {
            let props: Vec<&'static str> = if pt.cause == Cause::Dropped || cause == Cause::Dropped {
                vec!["C03", "C04"]
            } else {
                vec!["C03"]
            };
            return Err(v(
                &props,
                "wrong-cause",
                format!("{} but the first termination request to take effect was {:?}", what, pt.cause),
            ));
        }
        Ok(())
    }

    /// An item's capture is dropped without having run
    pub fn item_dropped(&mut self, id: ItemId) -> R {
        let tag = self.items[id as usize].ret_tag;
        self.item_dropped_inner(id).map_err(|mut e| {
            if tag && !e.props.contains(&"C05") {
                e.props.push("C05");
            }
            e
        })
    }

    fn item_dropped_inner(&mut self, id: ItemId) -> R {
        let it = self.items[id as usize].clone();
        let what = format!("item i{} ({:?}, {:?} queue) dropped un-run", id, it.kind, it.q);
        match it.st {
            IState::Pending | IState::Held | IState::Latent => {}
            IState::Dropped => {
                return Err(v(&["C01", "C16"], "dropped-twice", format!("{} twice", what)))
            }
            IState::Running | IState::Ran => {
                return Err(v(
                    &["C01", "C16"],
                    "dropped-after-run",
                    format!("{} although it ran", what),
                ))
            }
        }
        self.items[id as usize].st = IState::Dropped;
        if it.st == IState::Latent {
            // tag of a Ret/Fwd that was never delivered: legitimate only while that Ret/Fwd
            // itself is being dropped
            if self.abandon_depth == 0 && !self.dropping && !self.gone {
                return Err(v(
                    &["C05"],
                    "latent-dropped",
                    format!("{} outside the drop of its Ret/Fwd", what),
                ));
            }
            return Ok(());
        }
        if self.dropping || self.gone {
            // remove from whichever abstract queue holds it
            self.remove_from_queues(id);
            return Ok(());
        }
        if self.deleting_timer == Some(id) {
            return Ok(());
        }
        let mut st = it.st;
        if st == IState::Pending && it.q == Q::Main {
            if let Kind::Call(a) = it.kind {
                if self.actors[a as usize].st == AState::Prep {
                    // it reached the front earlier and is being held (the model holds lazily)
                    self.advance_main(&what, Some(it.kind), &|f| *f == MQ::Item(id))?;
                    self.consume_silent_front();
                    st = self.items[id as usize].st;
                    self.items[id as usize].st = IState::Dropped;
                }
            }
        }
        if st == IState::Held {
            let a = match it.kind {
                Kind::Call(a) => a,
                _ => unreachable!(),
            };
            let flushing_dead = matches!(self.flush.last(), Some((fa, q)) if *fa == a && q.front() == Some(&id))
                && self.actors[a as usize].st == AState::Zombie;
            if self.pterm.is_none() && !flushing_dead {
                // the termination that discards it has not been observed yet: find it
                self.explain_term(a, &what)?;
            }
            // (1) the Prep actor holding it is terminating
            if let Some(pt) = &mut self.pterm {
                if pt.aid == a {
                    if pt.held_to_drop.front() == Some(&id) {
                        pt.held_to_drop.pop_front();
                        return Ok(());
                    }
                    return Err(v(
                        &["C02", "C03"],
                        "held-discard-order",
                        format!("{} but the next held call to discard is {:?}", what, pt.held_to_drop.front()),
                    ));
                }
            }
            // (2) it is being flushed but the actor died during the flush
            self.check_no_obligations(&what)?;
            if let Some((fa, q)) = self.flush.last_mut() {
                if *fa == a && q.front() == Some(&id) && self.actors[a as usize].st == AState::Zombie {
                    q.pop_front();
                    self.stat_discarded_zombie += 1;
                    return Ok(());
                }
            }
            return Err(v(
                &["C02"],
                "held-call-lost",
                format!("{} while a{} is {:?} and not terminating", what, a, self.actors[a as usize].st),
            ));
        }
        // Pending in a queue
        self.check_no_obligations(&what)?;
        match it.q {
            Q::Main => {
                self.advance_main(&what, Some(it.kind), &|f| *f == MQ::Item(id))?;
                self.main.pop_front();
                match it.kind {
                    Kind::Closure => Err(v(
                        &["C01"],
                        "closure-dropped",
                        format!("{} while the Stakker is alive", what),
                    )),
                    Kind::Call(a) => {
                        if self.actors[a as usize].st == AState::Zombie {
                            self.stat_discarded_zombie += 1;
                            Ok(())
                        } else {
                            Err(v(
                                &["C02"],
                                "call-discarded",
                                format!("{} but a{} is {:?}", what, a, self.actors[a as usize].st),
                            ))
                        }
                    }
                    Kind::PrepCall(a) => {
                        if self.actors[a as usize].st != AState::Prep {
                            Ok(())
                        } else {
                            Err(v(
                                &["C02"],
                                "prep-call-discarded",
                                format!("{} but a{} is still Prep", what, a),
                            ))
                        }
                    }
                }
            }
            _ => Err(v(
                &["C06", "C05"],
                "queued-item-dropped",
                format!("{} while the Stakker is alive and the item was not deleted", what),
            )),
        }
    }

    fn remove_from_queues(&mut self, id: ItemId) {
        let q = self.items[id as usize].q;
        match q {
            Q::Main => {
                if let Some(p) = self.main.iter().position(|e| *e == MQ::Item(id)) {
                    self.main.remove(p);
                } else {
                    for e in self.main.iter_mut() {
                        if let MQ::Timers(t) = e {
                            t.retain(|x| *x != id);
                        }
                    }
                    for a in self.actors.iter_mut() {
                        a.held.retain(|x| *x != id);
                    }
                    for (_, f) in self.flush.iter_mut() {
                        f.retain(|x| *x != id);
                    }
                }
            }
            Q::Lazy => self.lazy.retain(|x| *x != id),
            Q::Idle => self.idle.retain(|x| *x != id),
            Q::Timer => {
                self.timers.retain(|x| *x != id);
                for e in self.main.iter_mut() {
                    if let MQ::Timers(t) = e {
                        t.retain(|x| *x != id);
                    }
                }
            }
        }
    }

    /// Drop handler of a dropped item runs between these two
    pub fn item_drop_begin(&mut self, id: ItemId) {
        self.drop_stack.push(id);
    }
    pub fn item_drop_end(&mut self, id: ItemId) {
        let t = self.drop_stack.pop();
        debug_assert_eq!(t, Some(id));
    }

    /// timer_del on a timer item: returns the answer the model expects
    /// (None = either answer acceptable)
    pub fn timer_del_begin(&mut self, id: ItemId) -> Option<bool> {
        let it = &self.items[id as usize];
        let r = match it.st {
            IState::Pending => {
                if self.timers.contains(&id) {
                    Some(true)
                } else {
                    // already moved to the main queue of this run
                    Some(false)
                }
            }
            _ => Some(false),
        };
        if r == Some(true) {
            self.deleting_timer = Some(id);
        }
        r
    }
    pub fn timer_del_end(&mut self, id: ItemId, answer: bool) -> R {
        let expected_drop = self.deleting_timer.take().is_some();
        if answer {
            self.timers.retain(|x| *x != id);
            if expected_drop && self.items[id as usize].st != IState::Dropped {
                return Err(v(
                    &["C05", "C16"],
                    "deleted-timer-not-dropped",
                    format!("timer item i{} was deleted but its closure was not dropped inside the delete call", id),
                ));
            }
        }
        Ok(())
    }

    /// Run returned
    pub fn run_end(&mut self, returned: bool) -> R {
        self.check_no_obligations("run() returned")?;
        if std::mem::take(&mut self.due_after_idle) {
            self.push_due();
        }
        if let Some((a, q)) = self.flush.last() {
            if !q.is_empty() {
                return Err(v(
                    &["C02"],
                    "flush-incomplete",
                    format!("run() returned but {} held call(s) of a{} were neither run nor discarded", q.len(), a),
                ));
            }
        }
        while self.consume_silent_front() {}
        if let Some(f) = self.main.front() {
            let props: Vec<&'static str> = match f {
                MQ::Item(i) => match self.items[*i as usize].kind {
                    Kind::Closure => vec!["C01", "C06"],
                    _ => vec!["C02", "C06"],
                },
                MQ::Term(_) | MQ::TermBatch(_) => vec!["C04"],
                MQ::Kill(..) => vec!["C03"],
                MQ::Timers(_) => vec!["C08", "C06"],
                MQ::SlabRemove(..) => vec!["C04"],
            };
            return Err(v(
                &props,
                "not-quiescent-main",
                format!("run() returned but main-queue entry {} has not been processed", self.describe_front()),
            ));
        }
        if let Some(l) = self.lazy.front() {
            return Err(v(
                &["C06"],
                "not-quiescent-lazy",
                format!("run() returned but lazy item i{} has not run", l),
            ));
        }
        let expect = !self.idle.is_empty();
        if returned != expect {
            return Err(v(
                &["C06"],
                "run-return",
                format!("run() returned {} but {} idle item(s) remain", returned, self.idle.len()),
            ));
        }
        // C04: every actor whose owners are all gone is terminated by now
        for (i, a) in self.actors.iter().enumerate() {
            if a.owners <= 0 && a.st != AState::Zombie {
                return Err(v(
                    &["C04"],
                    "unowned-alive",
                    format!("run() returned but actor a{} has no owner left and is still {:?}", i, a.st),
                ));
            }
        }
        self.in_run = false;
        Ok(())
    }

    pub fn stakker_drop_begin(&mut self) {
        self.dropping = true;
        self.drop_gen = 0;
        self.stat_drop_pending = self
            .main
            .iter()
            .filter(|e| matches!(e, MQ::Item(_)))
            .count() as u32;
    }

    /// Stakker::drop returned (all fields dropped as well)
    pub fn stakker_drop_end(&mut self) -> R {
        self.dropping = false;
        self.gone = true;
        // calls that had reached a Prep actor are held by it, not by the Stakker
        while self.consume_silent_front() {}
        for (i, it) in self.items.iter().enumerate() {
            let unresolved = matches!(it.st, IState::Pending);
            if unresolved && !it.after_gone && it.gen <= 99 {
                return Err(v(
                    &["C01", "C16"],
                    "pending-not-dropped",
                    format!(
                        "drop(stakker) returned but item i{} ({:?}, {:?} queue, drop generation {}) was neither run nor dropped",
                        i, it.kind, it.q, it.gen
                    ),
                ));
            }
        }
        Ok(())
    }

    /// End of case: everything has been released
    pub fn final_check(&mut self) -> Vec<Viol> {
        let mut out = Vec::new();
        for (i, it) in self.items.iter().enumerate() {
            match it.st {
                IState::Ran | IState::Dropped => {}
                s => {
                    out.push(v(
                        &["C01", "C16"],
                        "item-unresolved",
                        format!(
                            "at the end of the case item i{} ({:?}, {:?} queue) is {:?}: neither run nor dropped",
                            i, it.kind, it.q, s
                        ),
                    ));
                    break;
                }
            }
        }
        for (i, a) in self.actors.iter().enumerate() {
            if a.notified.is_none() {
                out.push(v(
                    &["C03", "C05", "C16"],
                    "notifier-never-invoked",
                    format!("at the end of the case the notifier of actor a{} was never invoked", i),
                ));
                break;
            }
        }
        for (i, a) in self.actors.iter().enumerate() {
            if a.had_value && !a.value_dropped {
                out.push(v(
                    &["C03", "C16"],
                    "value-never-dropped",
                    format!("at the end of the case the value of actor a{} was never dropped", i),
                ));
                break;
            }
        }
        out
    }

    /// May the later Stakker of the end-of-case flush be run?  Not if a pending call could end up
    /// held by an actor that is still in Prep (that would stage finding F2a by the harness's own doing).
    pub fn second_run_safe(&self) -> bool {
        !self.items.iter().any(|it| {
            matches!(it.st, IState::Pending)
                && match it.kind {
                    Kind::Call(a) | Kind::PrepCall(a) => self.actors[a as usize].st != AState::Zombie,
                    Kind::Closure => false,
                }
        })
    }

    /// Does finding F2 apply to an abrupt drop(stakker) now?
    pub fn f2_signature(&self) -> Option<&'static str> {
        for a in &self.actors {
            if a.st == AState::Prep && !a.held.is_empty() {
                return Some("abrupt-drop:prep-held");
            }
        }
        // unprocessed calls to Prep actors still at the front would be held too; be conservative
        for e in &self.main {
            if let MQ::Item(i) = e {
                if let Kind::Call(a) = self.items[*i as usize].kind {
                    if self.actors[a as usize].st == AState::Prep {
                        return Some("abrupt-drop:prep-held");
                    }
                }
            }
        }
        for a in &self.actors {
            if a.st != AState::Zombie && !a.slab_children.is_empty() {
                return Some("abrupt-drop:slab-cycle");
            }
        }
        None
    }
}
