//! E5: real-thread waker scenarios under Miri (data-race detector, weak-memory
//! emulation, randomised preemption).  Each worker writes a plain (non-atomic)
//! cell and then calls wake(); the handler, on the main thread, reads the
//! cell.  The only synchronisation between that write and that read is what
//! Waker::wake / poll_wake provide, so "everything the waking thread wrote
//! before wake() is visible to the handler" fails as a Miri data-race report
//! (or as a stale value) if the waker's atomics do not publish.
//!
//! Scenario selected by argv[1] (0..): wakers in the same bitmap word, two or
//! three workers, repeated wakes, final drop.

use stakker::{Stakker, Waker};
use std::cell::UnsafeCell;
use std::sync::{Arc, Condvar, Mutex};
use std::time::Instant;

struct Plain(UnsafeCell<u64>);
unsafe impl Sync for Plain {}
unsafe impl Send for Plain {}

struct Poll {
    m: Mutex<(usize, usize)>,
    cv: Condvar,
}

/// Re-wake scenarios (6..): one waker per worker, woken several times; the payload is a Relaxed
/// atomic (so the program itself has no data race whatever the waker does) written before each
/// wake().  The last ordinary (deleted=false) handler run must have seen the last value written:
/// either the final wake() found the bit already collected and schedules a fresh run that
/// happens-after the write, or its read-modify-write on the still-set bit is what the collecting
/// swap reads from.  A wake() that publishes nothing (e.g. only loads the word when the bit is
/// set) shows up as a stale last read under Miri's weak-memory emulation.
fn rewake(scenario: usize) {
    use std::sync::atomic::{AtomicU64, Ordering};
    let nworkers = 1 + scenario % 2;
    let nwakes = 2 + (scenario / 2) % 3;
    let now = Instant::now();
    let mut stakker = Stakker::new(now);
    let s = &mut stakker;
    let poll = Arc::new(Poll { m: Mutex::new((0, 0)), cv: Condvar::new() });
    let p2 = poll.clone();
    s.set_poll_waker(move || {
        let mut g = p2.m.lock().unwrap();
        g.0 += 1;
        drop(g);
        p2.cv.notify_all();
    });
    let payload: Arc<Vec<AtomicU64>> = Arc::new((0..nworkers).map(|_| AtomicU64::new(0)).collect());
    let seen: std::rc::Rc<std::cell::RefCell<Vec<(usize, u64, bool)>>> = Default::default();
    let mut handles = Vec::new();
    for t in 0..nworkers {
        let pl = payload.clone();
        let seen2 = seen.clone();
        let w = s.waker(move |_s, deleted| {
            let v = pl[t].load(Ordering::Relaxed);
            seen2.borrow_mut().push((t, v, deleted));
        });
        let pl = payload.clone();
        let poll = poll.clone();
        handles.push(std::thread::spawn(move || {
            for k in 1..=nwakes {
                pl[t].store(k as u64, Ordering::Relaxed);
                w.wake();
                if k % 2 == 1 {
                    std::thread::yield_now();
                }
            }
            let mut g = poll.m.lock().unwrap();
            g.1 += 1;
            drop(g);
            poll.cv.notify_all();
            // the Waker goes back to the main thread alive: its deleted=true call (which is ordered
            // by the drop-list mutex) must not be what delivers the last value
            w
        }));
    }
    loop {
        let mut g = poll.m.lock().unwrap();
        while g.0 == 0 && g.1 < nworkers {
            g = poll.cv.wait(g).unwrap();
        }
        if g.0 > 0 {
            g.0 -= 1;
            drop(g);
            s.poll_wake();
            s.run(now, false);
        } else {
            break;
        }
    }
    let wakers: Vec<Waker> = handles.into_iter().map(|h| h.join().unwrap()).collect();
    loop {
        let mut g = poll.m.lock().unwrap();
        if g.0 == 0 {
            break;
        }
        g.0 -= 1;
        drop(g);
        s.poll_wake();
        s.run(now, false);
    }
    {
        let seen = seen.borrow();
        for t in 0..nworkers {
            let last = seen.iter().filter(|e| e.0 == t && !e.2).last();
            match last {
                Some(e) if e.1 == nwakes as u64 => {}
                other => {
                    println!("STALE worker {} wrote {} before its last wake() but the last handler run saw {:?}", t, nwakes, other);
                    std::process::exit(3);
                }
            }
        }
        println!("ok scenario {} rewake workers {} wakes {} handler-runs {}", scenario, nworkers, nwakes, seen.len());
    }
    drop(wakers);
    loop {
        let mut g = poll.m.lock().unwrap();
        if g.0 == 0 {
            break;
        }
        g.0 -= 1;
        drop(g);
        s.poll_wake();
        s.run(now, false);
    }
}

fn main() {
    let scenario: usize = std::env::args().nth(1).and_then(|s| s.parse().ok()).unwrap_or(0);
    if scenario >= 6 {
        rewake(scenario - 6);
        return;
    }
    let nworkers = 2 + scenario % 2;
    let nwakes = 1 + (scenario / 2) % 3;
    let share_one_waker = (scenario / 6) % 2 == 1;

    let now = Instant::now();
    let mut stakker = Stakker::new(now);
    let s = &mut stakker;
    let poll = Arc::new(Poll { m: Mutex::new((0, 0)), cv: Condvar::new() });
    let p2 = poll.clone();
    s.set_poll_waker(move || {
        // Deliberately does NOT touch anything the handlers read: it only counts.
        let mut g = p2.m.lock().unwrap();
        g.0 += 1;
        drop(g);
        p2.cv.notify_all();
    });

    // One plain cell and one waker per (worker, wake): a cell is written exactly once, before the
    // only wake() of its waker, so on correct code every invocation of that waker's handler
    // happens-after the write (a second write to the same cell would race with the handler by the
    // program's own fault).  All wakers live in the same bitmap word, so wake() calls of different
    // threads meet in the shared summary words ("a nearby handler is already scheduled").
    let _ = share_one_waker;
    let ncell = nworkers * nwakes;
    let cells: Arc<Vec<Plain>> = Arc::new((0..ncell).map(|_| Plain(UnsafeCell::new(0))).collect());
    let seen: std::rc::Rc<std::cell::RefCell<Vec<(usize, u64, bool)>>> = Default::default();
    let mut wakers: Vec<Option<Waker>> = Vec::new();
    for i in 0..ncell {
        let cells = cells.clone();
        let seen = seen.clone();
        let w = s.waker(move |_s, deleted| {
            let v = unsafe { *cells[i].0.get() };
            seen.borrow_mut().push((i, v, deleted));
        });
        wakers.push(Some(w));
    }

    let mut handles = Vec::new();
    for t in 0..nworkers {
        let mine: Vec<Waker> = (0..nwakes).map(|k| wakers[t * nwakes + k].take().unwrap()).collect();
        let cells = cells.clone();
        let poll = poll.clone();
        handles.push(std::thread::spawn(move || {
            for (k, w) in mine.iter().enumerate() {
                // plain write, then wake: the write must be visible to the handler run for this wake
                unsafe { *cells[t * nwakes + k].0.get() = 7 + k as u64 };
                w.wake();
                if k % 2 == 1 {
                    std::thread::yield_now();
                }
            }
            drop(mine);
            let mut g = poll.m.lock().unwrap();
            g.1 += 1;
            drop(g);
            poll.cv.notify_all();
        }));
    }
    drop(wakers);

    // Event loop: poll_wake() only in response to poll-waker callbacks
    loop {
        let mut g = poll.m.lock().unwrap();
        while g.0 == 0 && g.1 < nworkers {
            g = poll.cv.wait(g).unwrap();
        }
        if g.0 > 0 {
            g.0 -= 1;
            drop(g);
            s.poll_wake();
            s.run(now, false);
        } else {
            break;
        }
    }
    for h in handles {
        h.join().unwrap();
    }
    loop {
        let mut g = poll.m.lock().unwrap();
        if g.0 == 0 {
            break;
        }
        g.0 -= 1;
        drop(g);
        s.poll_wake();
        s.run(now, false);
    }
    // Oracle (besides Miri's own data-race / UB detection): every invocation of a handler sees
    // the value written before its waker's wake(), and every handler was invoked
    let seen = seen.borrow();
    for i in 0..ncell {
        let want = 7 + (i % nwakes) as u64;
        let mine: Vec<_> = seen.iter().filter(|e| e.0 == i).collect();
        if mine.is_empty() || mine.iter().any(|e| e.1 != want) {
            println!("STALE cell {} was written {} before wake() but its handler saw {:?}", i, want, mine);
            std::process::exit(3);
        }
    }
    let ndel = seen.iter().filter(|e| e.2).count();
    println!("ok scenario {} workers {} wakes {} shared {} handler-reads {} deleted-reads {}", scenario, nworkers, nwakes, share_one_waker, seen.len(), ndel);
}
