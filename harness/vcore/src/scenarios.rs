//! Named regression scenarios: shrunk failures turned into plain checks that
//! bypass the generators (so they stay valid when a decoder changes).

use crate::timers::{run_script, SOp, STEP};
use crate::CaseReport;

const SEC: i64 = 1_000_000_000;
const MS: i64 = 1_000_000;

pub fn names() -> &'static [&'static str] {
    &["F1-min-upd-past-minimal", "F1-min-upd-past", "F1-min-upd-past-late"]
}

pub fn run(name: &str, trace: bool) -> Option<CaseReport> {
    Some(match name {
        // Shrunk by proptest from the first failing C08 case
        "F1-min-upd-past-minimal" => run_script(&[SOp::AddMin(1), SOp::Upd(0, 0), SOp::Run(STEP)], trace),
        // The "expire now" idiom: timer_min_upd(key, cx.now())
        "F1-min-upd-past" => run_script(
            &[
                SOp::AddMin(100 * SEC),
                SOp::Run(SEC),
                SOp::Upd(0, SEC - 5 * MS),
                SOp::Run(SEC + STEP),
                SOp::Active(0),
            ],
            trace,
        ),
        // Without overflow checks the entry used to be parked at a bogus cyclic
        // time; after > 32768 s of uptime the timer then fired hours late
        "F1-min-upd-past-late" => run_script(
            &[
                SOp::Run(40_000 * SEC),
                SOp::AddMin(40_100 * SEC),
                SOp::Upd(0, 40_000 * SEC),
                SOp::Run(40_000 * SEC + 2 * STEP),
                SOp::Active(0),
                SOp::RunNext,
            ],
            trace,
        ),
        _ => return None,
    })
}
