//! Counting global allocator: number of live allocations, used as a per-case,
//! shrinkable leak oracle (C16) that does not depend on LeakSanitizer's
//! reachability heuristics.

use std::alloc::{GlobalAlloc, Layout, System};
use std::sync::atomic::{AtomicIsize, Ordering};

pub struct Counting;

static LIVE: AtomicIsize = AtomicIsize::new(0);

unsafe impl GlobalAlloc for Counting {
    unsafe fn alloc(&self, l: Layout) -> *mut u8 {
        LIVE.fetch_add(1, Ordering::Relaxed);
        unsafe { System.alloc(l) }
    }
    unsafe fn dealloc(&self, p: *mut u8, l: Layout) {
        LIVE.fetch_sub(1, Ordering::Relaxed);
        unsafe { System.dealloc(p, l) }
    }
    unsafe fn alloc_zeroed(&self, l: Layout) -> *mut u8 {
        LIVE.fetch_add(1, Ordering::Relaxed);
        unsafe { System.alloc_zeroed(l) }
    }
    unsafe fn realloc(&self, p: *mut u8, l: Layout, n: usize) -> *mut u8 {
        unsafe { System.realloc(p, l, n) }
    }
}

#[global_allocator]
static GLOBAL: Counting = Counting;

/// Number of live heap allocations in the process
pub fn live() -> isize {
    LIVE.load(Ordering::Relaxed)
}
