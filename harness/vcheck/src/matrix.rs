//! E6: feature-matrix differential.  The same generated program is executed
//! by one persistent `vrun` process per supported feature set; the hashes of
//! the observable event traces must all be equal (C18).

use crate::{hex, LegResult, VERIF};
use proptest::prelude::*;
use proptest::test_runner::{Config, RngSeed, TestCaseError, TestError, TestRunner};
use serde_json::{json, Value};
use std::cell::RefCell;
use std::collections::{BTreeMap, HashSet};
use std::fs;
use std::io::{BufRead, BufReader, Write};
use std::path::Path;
use std::process::{Child, ChildStdin, ChildStdout, Command, Stdio};

pub struct Server {
    pub name: String,
    child: Child,
    inp: ChildStdin,
    out: BufReader<ChildStdout>,
}

pub struct Answer {
    pub hash: String,
    pub events: u64,
    pub nviol: u64,
    pub classes: Vec<String>,
    pub first: String,
    pub trace: Vec<String>,
}

pub fn configs() -> Vec<(String, String)> {
    // index \t flags, written by ./check when it builds the matrix
    let txt = fs::read_to_string(Path::new(VERIF).join("build/feat/configs.txt")).expect("build/feat/configs.txt (run ./check C18 once)");
    txt.lines()
        .filter(|l| !l.trim().is_empty())
        .map(|l| {
            let mut it = l.splitn(2, '\t');
            (it.next().unwrap().to_string(), it.next().unwrap_or("").to_string())
        })
        .collect()
}

impl Server {
    pub fn spawn_all(only_logger: bool) -> Vec<Server> {
        configs()
            .into_iter()
            .filter(|(_, f)| !only_logger || f.contains("logger"))
            .map(|(idx, flags)| {
                let exe = Path::new(VERIF).join(format!("build/feat/{}/matrix/vrun", idx));
                let mut child = Command::new(&exe)
                    .stdin(Stdio::piped())
                    .stdout(Stdio::piped())
                    .stderr(if std::env::var("VERIF_MATRIX_STDERR").is_ok() { Stdio::inherit() } else { Stdio::null() })
                    .spawn()
                    .unwrap_or_else(|e| panic!("cannot start {}: {}", exe.display(), e));
                let inp = child.stdin.take().unwrap();
                let out = BufReader::new(child.stdout.take().unwrap());
                Server { name: flags, child, inp, out }
            })
            .collect()
    }
    pub fn ask(&mut self, engine: &str, focus: &str, size: u32, flags: &str, bytes: &[u8]) -> Option<Answer> {
        if !self.send(engine, focus, size, flags, &hex(bytes)) {
            return None;
        }
        self.recv(flags)
    }
    /// Requests are pipelined: `send` to every server first, then `recv` from each, so that the
    /// feature sets execute one program concurrently
    pub fn send(&mut self, engine: &str, focus: &str, size: u32, flags: &str, hexbytes: &str) -> bool {
        let f = if focus.is_empty() { "-" } else { focus };
        if writeln!(self.inp, "{} {} {} {} {}", engine, f, size, flags, hexbytes).is_err() {
            return false;
        }
        self.inp.flush().is_ok()
    }
    pub fn recv(&mut self, flags: &str) -> Option<Answer> {
        let mut line = String::new();
        if self.out.read_line(&mut line).ok()? == 0 {
            return None;
        }
        let mut p = line.trim_end().splitn(5, ' ');
        let hash = p.next()?.to_string();
        let events = p.next()?.parse().ok()?;
        let nviol = p.next()?.parse().ok()?;
        let classes: Vec<String> = match p.next()? {
            "-" => Vec::new(),
            c => c.split(',').map(|x| x.to_string()).collect(),
        };
        let first = p.next().unwrap_or("").to_string();
        let mut trace = Vec::new();
        if flags.contains('t') {
            loop {
                let mut l = String::new();
                if self.out.read_line(&mut l).ok()? == 0 {
                    break;
                }
                let l = l.trim_end();
                if l == "." {
                    break;
                }
                trace.push(l.trim_start_matches('|').to_string());
            }
        }
        Some(Answer { hash, events, nviol, classes, first, trace })
    }
}

impl Drop for Server {
    fn drop(&mut self) {
        let _ = self.child.kill();
        let _ = self.child.wait();
    }
}

/// One program to every server (pipelined); a dead server is an error naming its feature set
fn ask_all(servers: &mut [Server], engine: &str, focus: &str, size: u32, bytes: &[u8]) -> Result<Vec<Answer>, String> {
    let hx = hex(bytes);
    let sent: Vec<bool> = servers.iter_mut().map(|s| s.send(engine, focus, size, "m", &hx)).collect();
    let mut out = Vec::with_capacity(servers.len());
    let mut dead = None;
    for (s, ok) in servers.iter_mut().zip(sent) {
        // read every answer even after a failure, so that the surviving servers stay in step
        match if ok { s.recv("m") } else { None } {
            Some(a) => out.push(a),
            None => {
                if dead.is_none() {
                    dead = Some(format!("feature set [{}]: process died while executing the program", s.name));
                }
            }
        }
    }
    match dead {
        Some(m) => Err(m),
        None => Ok(out),
    }
}

/// Compare all servers on one program.  Ok(classes) or Err(message)
pub fn compare(servers: &mut [Server], engine: &str, focus: &str, size: u32, bytes: &[u8]) -> Result<(Vec<String>, Vec<String>), String> {
    let mut first: Option<(String, u64, String)> = None;
    let mut classes = Vec::new();
    // monitor reports that do not decide C18 (rule names, distinct per program): with equal traces
    // they concern only what happens to closures deferred after the Stakker is gone, which is
    // documented to differ per deferrer (the inline deferrers keep them until the last handle goes)
    let mut ignored: Vec<String> = Vec::new();
    let answers = ask_all(servers, engine, focus, size, bytes)?;
    for (s, a) in servers.iter().zip(answers) {
        for vtext in a.first.split(" ;; ").filter(|v| !v.is_empty()) {
            let rule = vtext.splitn(2, '[').nth(1).unwrap_or("?").splitn(2, ']').next().unwrap_or("?").to_string();
            if !ignored.contains(&rule) {
                ignored.push(rule);
            }
        }
        // a monitor rule that decides C18 itself (e.g. leftovers of a dropped Stakker executed by a
        // later one, which only some deferrers can even exhibit)
        for vtext in a.first.split(" ;; ") {
            let mut it = vtext.splitn(2, '|');
            if it.next().unwrap_or("").split('+').any(|p| p == "C18") {
                return Err(format!("feature set [{}]: {}", s.name, it.next().unwrap_or("")));
            }
        }
        match &first {
            None => {
                first = Some((a.hash.clone(), a.events, s.name.clone()));
                classes = a.classes;
            }
            Some((h, ev, n)) => {
                if *h != a.hash || *ev != a.events {
                    return Err(format!(
                        "observable event traces differ between feature sets [{}] ({} events, hash {}) and [{}] ({} events, hash {}){}",
                        n,
                        ev,
                        h,
                        s.name,
                        a.events,
                        a.hash,
                        if a.first.is_empty() { String::new() } else { format!("; the latter's monitor says: {}", a.first) }
                    ));
                }
            }
        }
    }
    Ok((classes, ignored))
}

/// C20: every feature set that includes `logger` runs the program with a recording logger
pub fn logger_check(servers: &mut [Server], focus: &str, size: u32, bytes: &[u8]) -> Result<(Vec<String>, Vec<String>), String> {
    let mut classes = Vec::new();
    let mut n: Vec<String> = Vec::new();
    let answers = ask_all(servers, "vm", focus, size, bytes)?;
    for (s, a) in servers.iter().zip(answers) {
        for v in a.first.split(" ;; ").filter(|v| !v.is_empty()) {
            let rule = v.splitn(2, '[').nth(1).unwrap_or("?").splitn(2, ']').next().unwrap_or("?").to_string();
            if !n.contains(&rule) {
                n.push(rule);
            }
            let mut it = v.splitn(2, '|');
            let props = it.next().unwrap_or("");
            if props.split('+').any(|p| p == "C20") {
                return Err(format!("feature set [{}]: {}", s.name, it.next().unwrap_or("")));
            }
        }
        if classes.is_empty() {
            classes = a.classes;
        }
    }
    Ok((classes, n))
}

pub fn nontrivial(classes: &[String]) -> bool {
    let has = |c: &str| classes.iter().any(|x| x == c);
    let n = (has("held-calls-flushed") || has("prep-actor-terminated-with-held-calls")) as u32
        + has("drop-handler-defers") as u32
        + has("timer-fired") as u32
        + has("main-queue>1KiB") as u32;
    n >= 3
}

pub fn worker(a: &[String]) -> i32 {
    // prop focus size seed cases lenlo lenhi outfile
    let prop = a[0].clone();
    let focus = a[1].clone();
    let size: u32 = a[2].parse().unwrap();
    let wseed: u64 = a[3].parse().unwrap();
    let cases: u32 = a[4].parse().unwrap();
    let lenlo: usize = a[5].parse().unwrap();
    let lenhi: usize = a[6].parse().unwrap();
    let logger_mode = a.get(8).map(|x| x == "logger").unwrap_or(false);
    let servers = RefCell::new(Server::spawn_all(logger_mode));
    let nservers = servers.borrow().len();
    struct St {
        evals: u64,
        nt: HashSet<u64>,
        classes: BTreeMap<String, u64>,
        samples: Vec<Value>,
        monitor_viol: BTreeMap<String, u64>,
        failed: bool,
    }
    let st = RefCell::new(St { evals: 0, nt: HashSet::new(), classes: BTreeMap::new(), samples: Vec::new(), monitor_viol: BTreeMap::new(), failed: false });
    let mut runner = TestRunner::new(Config {
        cases,
        rng_seed: RngSeed::Fixed(wseed),
        failure_persistence: None,
        max_shrink_iters: 4000,
        ..Config::default()
    });
    let strat = proptest::collection::vec(any::<u8>(), lenlo..lenhi);
    let result = runner.run(&strat, |bytes| {
        let r = if logger_mode {
            logger_check(&mut servers.borrow_mut(), &focus, size, &bytes)
        } else {
            compare(&mut servers.borrow_mut(), "vm", &focus, size, &bytes)
        };
        let mut s = st.borrow_mut();
        match r {
            Ok((classes, nviol)) => {
                if !s.failed {
                    s.evals += 1;
                    for r in &nviol {
                        *s.monitor_viol.entry(r.clone()).or_insert(0) += 1;
                    }
                    for c in &classes {
                        *s.classes.entry(c.clone()).or_insert(0) += 1;
                    }
                    if (logger_mode && classes.iter().any(|c| c == "nt:C20")) || (!logger_mode && nontrivial(&classes)) {
                        let h = vcore::fnv(&bytes);
                        if s.nt.insert(h) && s.samples.len() < 1 && bytes.len() < 300 {
                            let tr = servers.borrow_mut()[0].ask("vm", &focus, size, "mt", &bytes).map(|a| a.trace).unwrap_or_default();
                            let mut tr = tr;
                            tr.truncate(80);
                            s.samples.push(json!({"bytes": hex(&bytes), "case": tr}));
                        }
                    }
                }
                Ok(())
            }
            Err(m) => {
                s.failed = true;
                if m.contains("process died") {
                    // restart the servers so that shrinking can continue
                    drop(s);
                    *servers.borrow_mut() = Server::spawn_all(logger_mode);
                }
                Err(TestCaseError::fail(m))
            }
        }
    });
    let mut s = st.into_inner();
    let mut out = json!({
        "evaluations": s.evals,
        "classes": s.classes,
        "samples": s.samples,
        "feature_sets": nservers,
        "monitor_reports_not_deciding_this_property": s.monitor_viol,
    });
    let mut nt: Vec<u64> = s.nt.drain().collect();
    nt.sort();
    out["nt"] = json!(nt);
    let mut code = 0;
    if let Err(TestError::Fail(reason, bytes)) = result {
        let dir = Path::new(VERIF).join("evidence/replays");
        fs::create_dir_all(&dir).unwrap();
        let path = dir.join(format!("{}-matrix-{:016x}.json", prop, vcore::fnv(&bytes)));
        fs::write(
            &path,
            serde_json::to_vec_pretty(&json!({
                "property": prop, "engine": if logger_mode { "matrix-logger" } else { "matrix" }, "focus": focus, "size": size,
                "bytes": hex(&bytes), "message": reason.to_string(),
            }))
            .unwrap(),
        )
        .unwrap();
        out["violation"] = json!({"replay": path.to_string_lossy(), "message": reason.to_string()});
        code = 1;
    }
    fs::write(&a[7], serde_json::to_vec(&out).unwrap()).unwrap();
    code
}

pub fn run_leg(prop: &str, idx: usize, thorough: bool, deadline: std::time::Instant, logger_mode: bool) -> LegResult {
    let total: u32 = if logger_mode {
        if thorough { 8_000_000 } else { 480_000 }
    } else if thorough { 1_200_000 } else { 160_000 };
    let nw = if thorough { 16u32 } else { 8u32 };
    let outdir = Path::new(VERIF).join(format!("build/work/{}-{}", prop, idx));
    let _ = fs::remove_dir_all(&outdir);
    fs::create_dir_all(&outdir).unwrap();
    let exe = std::env::current_exe().unwrap();
    let foci = if logger_mode {
        ["C02", "C03", "C04", "C03", "C02", "C04", "C03", ""]
    } else {
        ["C01", "C02", "C05", "C16", "C03", "C04", "C06", ""]
    };
    let mut kids = Vec::new();
    for w in 0..nw {
        let out = outdir.join(format!("m{}.json", w));
        let wseed = crate::seed().wrapping_mul(7_368_787).wrapping_add(w as u64 * 31);
        let child = Command::new(&exe)
            .args([
                "matrix-worker",
                prop,
                foci[w as usize % foci.len()],
                if thorough { "1" } else { "0" },
                &wseed.to_string(),
                &(total / nw).to_string(),
                "0",
                if thorough { "900" } else { "300" },
                out.to_str().unwrap(),
                if logger_mode { "logger" } else { "all" },
            ])
            .stdout(Stdio::null())
            .stderr(Stdio::null())
            .spawn()
            .unwrap();
        kids.push((out, child));
    }
    let mut res = LegResult::new();
    for (out, mut child) in kids {
        let st = loop {
            match child.try_wait().unwrap() {
                Some(st) => break Some(st),
                None => {
                    if std::time::Instant::now() > deadline {
                        let _ = child.kill();
                        let _ = child.wait();
                        break None;
                    }
                    std::thread::sleep(std::time::Duration::from_millis(20));
                }
            }
        };
        match (st, fs::read(&out)) {
            (Some(_), Ok(b)) => {
                let v: Value = serde_json::from_slice(&b).unwrap();
                res.evaluations += v["evaluations"].as_u64().unwrap_or(0);
                if let Some(m) = v["classes"].as_object() {
                    for (k, x) in m {
                        *res.classes.entry(k.clone()).or_insert(0) += x.as_u64().unwrap_or(0);
                    }
                }
                for h in v["nt"].as_array().cloned().unwrap_or_default() {
                    res.nt.insert(h.as_u64().unwrap_or(0));
                }
                for s in v["samples"].as_array().cloned().unwrap_or_default() {
                    if res.samples.len() < 3 {
                        res.samples.push(s);
                    }
                }
                res.extra.insert("feature_sets".into(), v["feature_sets"].clone());
                // programs per rule name whose monitor report did not decide this property (equal traces:
                // only closures deferred after the Stakker was gone, documented to differ per deferrer)
                if let Some(m) = v["monitor_reports_not_deciding_this_property"].as_object() {
                    let e = res.extra.entry("programs_with_monitor_reports_not_deciding_this_property".into()).or_insert(json!({}));
                    for (k, x) in m {
                        let cur = e[k].as_u64().unwrap_or(0);
                        e[k] = json!(cur + x.as_u64().unwrap_or(0));
                    }
                }
                if let Some(x) = v.get("violation") {
                    res.violations.push((x["replay"].as_str().unwrap().to_string(), x["message"].as_str().unwrap().to_string()));
                }
            }
            (None, _) => res.inconclusive.push("matrix worker exceeded the watchdog".into()),
            (Some(st), Err(_)) => res.inconclusive.push(format!("matrix worker died without a report: {:?}", st)),
        }
    }
    res.extra.insert(
        "feature_set_list".into(),
        json!(configs().into_iter().map(|c| c.1).filter(|f| !logger_mode || f.contains("logger")).collect::<Vec<_>>()),
    );
    res
}

/// Replay: run the program on every feature set with tracing and show the first divergence
pub fn replay_logger(v: &Value, path: &Path) -> i32 {
    let bytes = crate::unhex(v["bytes"].as_str().unwrap());
    let focus = v["focus"].as_str().unwrap_or("");
    let size = v["size"].as_u64().unwrap_or(0) as u32;
    let mut servers = Server::spawn_all(true);
    for s in servers.iter_mut() {
        match s.ask("vm", focus, size, "mt", &bytes) {
            Some(a) => {
                for x in a.first.split(" ;; ") {
                    let mut it = x.splitn(2, '|');
                    if it.next().unwrap_or("").split('+').any(|p| p == "C20") {
                        for l in &a.trace {
                            println!("{}", l);
                        }
                        println!("  feature set [{}]: {}", s.name, it.next().unwrap_or(""));
                        println!("VIOLATION property=C20 replay={}", path.display());
                        return 1;
                    }
                }
            }
            None => {
                println!("  feature set [{}]: process died", s.name);
                println!("VIOLATION property=C20 replay={}", path.display());
                return 1;
            }
        }
    }
    println!("replay: C20 holds on this program in all {} logger feature sets", servers.len());
    0
}

pub fn replay(v: &Value, path: &Path) -> i32 {
    let bytes = crate::unhex(v["bytes"].as_str().unwrap());
    let focus = v["focus"].as_str().unwrap_or("");
    let size = v["size"].as_u64().unwrap_or(0) as u32;
    let mut servers = Server::spawn_all(false);
    let mut answers = Vec::new();
    for s in servers.iter_mut() {
        match s.ask("vm", focus, size, "mt", &bytes) {
            Some(a) => answers.push((s.name.clone(), a)),
            None => {
                println!("  feature set [{}]: process died while executing the program", s.name);
                println!("VIOLATION property=C18 replay={}", path.display());
                return 1;
            }
        }
    }
    let (n0, a0) = &answers[0];
    for (n, a) in answers.iter().skip(1) {
        if a.hash != a0.hash || a.events != a0.events {
            let k = a0.trace.iter().zip(a.trace.iter()).take_while(|(x, y)| x == y).count();
            println!("feature sets [{}] and [{}] diverge at trace line {}:", n0, n, k);
            for l in a0.trace.iter().take(k).rev().take(12).collect::<Vec<_>>().into_iter().rev() {
                println!("    {}", l);
            }
            println!("  [{}] continues: {:?}", n0, a0.trace.get(k));
            println!("  [{}] continues: {:?}", n, a.trace.get(k));
            println!("  [matrix-diverge] observable event traces differ between feature sets [{}] and [{}]", n0, n);
            println!("VIOLATION property=C18 replay={}", path.display());
            return 1;
        }
    }
    println!("replay: all {} feature sets produce the same trace ({} events)", answers.len(), a0.events);
    0
}
