#!/bin/bash
# seeded_verify.sh <PROP> [suffix]: confirm a sub-agent's seeded change in its scratch worktree /tmp/wt-<PROP><suffix>
# (existing tests pass with it, demo fails with it, demo passes without it), store it under
# /verif/seeded/<PROP><suffix>/, then run ./check <PROP> against it in /repo and record the outcome.
P=$1; SFX=${2:-}; WT=/tmp/wt-$P$SFX; D=/verif/seeded/$P$SFX
mkdir -p $D
cd $WT || exit 2
git diff -- src > $D/patch.diff
cp tests/seeded_demo.rs $D/seeded_demo.rs 2>/dev/null
cp SEEDED.md $D/SEEDED.md 2>/dev/null
[ -s $D/patch.diff ] || { echo "$P: empty patch"; exit 2; }
# 1. existing suite with the change (demo set aside)
mkdir -p /tmp/seeded-aside; mv tests/seeded_demo.rs /tmp/seeded-aside/$P$SFX.rs
t1=$(timeout 600 cargo test --workspace --no-fail-fast --offline 2>&1 | grep -E "^test result" | tr '\n' ' ')
mv /tmp/seeded-aside/$P$SFX.rs tests/seeded_demo.rs
# 2. demo with the change
timeout 600 cargo test --offline $FEATS --test seeded_demo >/tmp/seeded-aside/$P$SFX.with.log 2>&1; r2=$?
# 3. demo without the change
git apply -R $D/patch.diff
timeout 600 cargo test --offline $FEATS --test seeded_demo >/tmp/seeded-aside/$P$SFX.without.log 2>&1; r3=$?
git apply $D/patch.diff
echo "$P$SFX: existing-suite=[$t1] demo-with-change rc=$r2 demo-without rc=$r3"
# 4. our check
git -C /repo diff --quiet || { echo "/repo not clean"; exit 2; }
git -C /repo apply $D/patch.diff || { echo "patch does not apply to /repo"; exit 2; }
out=$(cd /verif && ./check $P 2>&1); rc=$?
git -C /repo checkout -- .
first=$(echo "$out" | grep -m1 '^  ' | cut -c1-400)
echo "$P$SFX: ./check $P rc=$rc :: $first"
python3 - "$P" "$SFX" "$t1" "$r2" "$r3" "$rc" "$first" <<'PY'
import json,sys
P,SFX,t1,r2,r3,rc,first=sys.argv[1:8]
d=f"/verif/seeded/{P}{SFX}"
json.dump({"property":P,"source":"independent sub-agent given only the property text and a scratch worktree",
 "confirmed":{"existing_suite_with_change":t1,"demo_with_change_exit":int(r2),"demo_without_change_exit":int(r3)},
 "needs_to_manifest":"see SEEDED.md",
 "our_check":{"cmd":f"./check {P}","exit":int(rc),"first_violation":first},
 "ran":[f"cargo test --workspace --no-fail-fast --offline (in worktree, demo set aside)","cargo test --offline --test seeded_demo (with and without the change)",f"git -C /repo apply patch.diff; ./check {P}; git -C /repo checkout -- ."]},
 open(d+"/meta.json","w"),indent=1)
PY
