//! E2: timer histories against a deadline model (C07, C08, C09, C10, C19 and
//! the timer clause of C15).
//!
//! A case is a byte string decoded into a history of timer operations
//! (add/after/max/min add, upd, del, active, run, next_* queries), issued from
//! the top level, from main-queue items and from timer callbacks, with
//! virtual instants chosen around the places where the implementation's
//! quantisation (2^14 ns ticks, 16-bit sub-second field) and wrap-around
//! (32767 s re-queue period, 65536 s cyclic key range) change behaviour.
//!
//! The model never replicates the quantisation.  It records, per timer, the
//! effective expiry E (ns, exact), the time T at which E was last set, and
//! the state, and asserts only the bounds that the properties state.

use crate::{CaseReport, Cur, Opts};
use stakker::{FixedTimerKey, MaxTimerKey, MinTimerKey, Stakker};
use std::cell::RefCell;
use std::rc::Rc;
use std::time::{Duration, Instant};

pub const STEP: i64 = 1 << 14;
const SEC: i64 = 1_000_000_000;
const MS: i64 = 1_000_000;

thread_local! {
    static EPOCH: Instant = Instant::now() + Duration::from_secs(20_000);
}

/// Instant for offset `off` ns relative to the case's t0
pub fn inst(off: i64) -> Instant {
    let base = EPOCH.with(|e| *e);
    if off >= 0 {
        base + Duration::from_nanos(off as u64)
    } else {
        base - Duration::from_nanos((-off) as u64)
    }
}

pub fn to_off(i: Instant) -> i64 {
    let base = EPOCH.with(|e| *e);
    if i >= base {
        i.duration_since(base).as_nanos() as i64
    } else {
        -(base.duration_since(i).as_nanos() as i64)
    }
}

#[derive(Clone, Copy, PartialEq, Eq, Debug)]
enum Kind {
    Fixed,
    Max,
    Min,
}

#[derive(Clone, Copy, PartialEq, Eq, Debug)]
enum St {
    Pending,
    Fired,
    Deleted,
}

#[derive(Clone, Copy, Debug)]
enum Key {
    None,
    F(FixedTimerKey),
    X(MaxTimerKey),
    N(MinTimerKey),
}

#[derive(Clone, Copy, Debug)]
enum KeySel {
    Timer(usize),
    DefF,
    DefX,
    DefN,
}

#[derive(Clone, Copy, Debug)]
enum KeyOp {
    Del,
    Upd(i64),
    Active,
}

/// What a timer callback (or a deferred main-queue item) does when it runs
#[derive(Clone, Copy, Debug)]
enum Act {
    Nothing,
    Add(Kind, i64),
    After(i64),
    UseKey(KeySel, KeyOp),
    Query,
}

struct MT {
    kind: Kind,
    key: Key,
    eff: i64,
    tset: i64,
    created: i64,
    created_run: u32,
    cseq: u32,
    long: bool,
    st: St,
    answered_false: bool,
    must_fire_run: Option<u32>,
    updated: bool,
    act: Act,
    /// the callback closure was dropped without having run
    dropped_unrun: bool,
    fired_flag: bool,
}

struct W {
    rep: CaseReport,
    /// Property being decided ("" = any): a violation of another property ends the history only
    /// if its rule is not purely observational (see `halted`)
    decide: String,
    trace: bool,
    now: i64,
    run_idx: u32,
    in_run: bool,
    run_advanced: bool,
    in_api: u32,
    timers: Vec<MT>,
    cseq: u32,
    fire_log: Vec<usize>,
    deferred_outstanding: u32,
    entry_items: u32,
    budget: u64,
    // statistics for non-trivial rules
    n_upd_var: u32,
    n_near_run: u32,
    n_cross_32767: u32,
    n_upd_at_or_before_now: u32,
    n_upd_subtick: u32,
    n_upd_far: u32,
    n_multi_period_run: u32,
    n_stale_reuse: u32,
    n_default_with_pending: u32,
    n_del_head: u32,
    n_head_var_updated: u32,
    n_inrun_ops: u32,
    slots_freed: [u32; 3],
    max_fixed_in_run: u32,
    c19_nt: bool,
    n_nonadv_runs_with_due: u32,
    n_del_requeued: u32,
}

type Wh = Rc<RefCell<W>>;

/// Lives inside every timer callback closure: tells the model when the closure is dropped un-run
/// (C05: whatever a deleted timer's closure owns, e.g. a Ret, is released at the deletion)
struct Guard {
    wh: Wh,
    idx: usize,
}

impl Drop for Guard {
    fn drop(&mut self) {
        if let Ok(mut w) = self.wh.try_borrow_mut() {
            let idx = self.idx;
            if !w.timers[idx].fired_flag {
                w.timers[idx].dropped_unrun = true;
            }
        }
    }
}

macro_rules! tr {
    ($w:expr, $($arg:tt)*) => {
        if $w.trace { let s = format!($($arg)*); $w.rep.trace.push(s); }
    };
}

fn fmt_off(o: i64) -> String {
    let neg = o < 0;
    let a = o.unsigned_abs();
    format!(
        "{}{}.{:09}s",
        if neg { "-" } else { "" },
        a / SEC as u64,
        a % SEC as u64
    )
}

impl W {
    fn pending_bound(&self, skip_zone2: bool) -> Option<i64> {
        let mut best: Option<i64> = None;
        for t in &self.timers {
            if t.st != St::Pending {
                continue;
            }
            if skip_zone2 && self.zone2(t) {
                continue;
            }
            let d = t.eff.max(t.tset);
            best = Some(best.map_or(d, |b| b.min(d)));
        }
        best
    }
    fn zone2(&self, t: &MT) -> bool {
        t.st == St::Pending
            && self.in_run
            && self.run_advanced
            && t.created_run < self.run_idx
            && t.eff <= self.now
    }
    fn per_timer_budget(&self, eff: i64) -> u64 {
        let remaining = (eff - self.now).max(0) / SEC;
        2 * (16 * (remaining as u64 / 32767 + 1) + 4)
    }
}

fn do_add(wh: &Wh, s: &mut Stakker, kind: Kind, eff_req: i64, after: Option<i64>, act: Act) {
    let idx;
    let eff;
    {
        let mut w = wh.borrow_mut();
        idx = w.timers.len();
        eff = match after {
            Some(d) => w.now + d,
            None => eff_req,
        };
        let now = w.now;
        let long = eff - now >= 32767 * SEC - 2 * STEP;
        let cseq = w.cseq;
        w.cseq += 1;
        let run_idx = w.run_idx;
        w.timers.push(MT {
            kind,
            key: Key::None,
            eff,
            tset: now,
            created: now,
            created_run: run_idx,
            cseq,
            long,
            st: St::Pending,
            answered_false: false,
            must_fire_run: None,
            updated: false,
            act,
            dropped_unrun: false,
            fired_flag: false,
        });
        let b = w.per_timer_budget(eff);
        w.budget += b;
        if w.in_run {
            w.n_inrun_ops += 1;
        }
        if (eff - now).abs() <= 2 * STEP {
            w.n_near_run += 1;
        }
        w.in_api += 1;
        tr!(
            w,
            "t{} = add {:?} expiry {} (now {}){}{}",
            idx,
            kind,
            fmt_off(eff),
            fmt_off(now),
            if after.is_some() { " via after()" } else { "" },
            if w.in_run { " [in run]" } else { "" }
        );
    }
    let wh2 = wh.clone();
    let guard = Guard { wh: wh.clone(), idx };
    let f = move |s: &mut Stakker| {
        guard.wh.borrow_mut().timers[guard.idx].fired_flag = true;
        drop(guard);
        fire(&wh2, s, idx)
    };
    let key = match (kind, after) {
        (Kind::Fixed, Some(d)) => Key::F(s.after(Duration::from_nanos(d as u64), f)),
        (Kind::Fixed, None) => Key::F(s.timer_add(inst(eff), f)),
        (Kind::Max, _) => Key::X(s.timer_max_add(inst(eff), f)),
        (Kind::Min, _) => Key::N(s.timer_min_add(inst(eff), f)),
    };
    let mut w = wh.borrow_mut();
    w.in_api -= 1;
    w.timers[idx].key = key;
}

fn fire(wh: &Wh, s: &mut Stakker, idx: usize) {
    let act;
    {
        let mut w = wh.borrow_mut();
        let snow = to_off(s.now());
        let now = w.now;
        tr!(w, "  FIRE t{} at now {}", idx, fmt_off(snow));
        if w.in_api != 0 {
            w.rep.viol(
                &["C07"],
                "cb-inside-api",
                format!("timer t{} callback ran synchronously inside a timer API call", idx),
            );
        }
        if !w.in_run {
            w.rep.viol(
                &["C07"],
                "cb-outside-run",
                format!("timer t{} callback ran outside run()", idx),
            );
        }
        if snow != now {
            w.rep.viol(
                &["C15"],
                "timer-now",
                format!(
                    "timer t{} callback sees now {} but greatest instant passed is {}",
                    idx,
                    fmt_off(snow),
                    fmt_off(now)
                ),
            );
        }
        if w.in_run && !w.run_advanced {
            w.rep.viol(
                &["C15"],
                "timer-nonadvancing-run",
                format!("timer t{} fired in a run that did not advance time", idx),
            );
        }
        let (st, eff, kind) = {
            let t = &w.timers[idx];
            (t.st, t.eff, t.kind)
        };
        match st {
            St::Fired => w.rep.viol(
                &["C08"],
                "fired-twice",
                format!("timer t{} ({:?}) fired twice", idx, kind),
            ),
            St::Deleted => w.rep.viol(
                &["C10"],
                "deleted-fired",
                format!("timer t{} ({:?}) fired after a successful delete", idx, kind),
            ),
            St::Pending => {}
        }
        if now < eff {
            w.rep.viol(
                &["C07"],
                "early",
                format!(
                    "timer t{} ({:?}) fired at {} which is {} ns before its effective expiry {}",
                    idx,
                    kind,
                    fmt_off(now),
                    eff - now,
                    fmt_off(eff)
                ),
            );
        }
        let entry_items = w.entry_items;
        if entry_items != 0 {
            w.rep.viol(
                &["C19"],
                "timer-before-queued-call",
                format!(
                    "timer t{} callback ran before {} call(s) that were queued when run was called",
                    idx, entry_items
                ),
            );
        }
        w.timers[idx].st = St::Fired;
        w.fire_log.push(idx);
        act = w.timers[idx].act;
    }
    do_act(wh, s, act);
}

fn do_act(wh: &Wh, s: &mut Stakker, act: Act) {
    match act {
        Act::Nothing => {}
        Act::Add(kind, delta) => {
            let now = wh.borrow().now;
            do_add(wh, s, kind, now + delta, None, Act::Nothing);
        }
        Act::After(d) => do_add(wh, s, Kind::Fixed, 0, Some(d.max(0)), Act::Nothing),
        Act::UseKey(sel, op) => use_key(wh, s, sel, op),
        Act::Query => check_next(wh, s),
    }
}

fn use_key(wh: &Wh, s: &mut Stakker, sel: KeySel, op: KeyOp) {
    // Resolve key and applicable operation
    let (key, idx) = {
        let w = wh.borrow();
        match sel {
            KeySel::Timer(i) => {
                if i >= w.timers.len() {
                    return;
                }
                (w.timers[i].key, Some(i))
            }
            KeySel::DefF => (Key::F(FixedTimerKey::default()), None),
            KeySel::DefX => (Key::X(MaxTimerKey::default()), None),
            KeySel::DefN => (Key::N(MinTimerKey::default()), None),
        }
    };
    let op = match (key, op) {
        (Key::F(_), _) => KeyOp::Del,
        (_, o) => o,
    };
    {
        let mut w = wh.borrow_mut();
        w.in_api += 1;
        if w.in_run {
            w.n_inrun_ops += 1;
        }
        tr!(
            w,
            "{}{} {} ...",
            if w.in_run { "  " } else { "" },
            match sel {
                KeySel::Timer(i) => format!("key of t{}", i),
                o => format!("{:?}", o),
            },
            match op {
                KeyOp::Upd(e) => format!("upd to {}", fmt_off(e)),
                o => format!("{:?}", o),
            }
        );
    }
    let ans = match (key, op) {
        (Key::None, _) => {
            wh.borrow_mut().in_api -= 1;
            return;
        }
        (Key::F(k), _) => s.timer_del(k),
        (Key::X(k), KeyOp::Del) => s.timer_max_del(k),
        (Key::X(k), KeyOp::Upd(e)) => s.timer_max_upd(k, inst(e)),
        (Key::X(k), KeyOp::Active) => s.timer_max_active(k),
        (Key::N(k), KeyOp::Del) => s.timer_min_del(k),
        (Key::N(k), KeyOp::Upd(e)) => s.timer_min_upd(k, inst(e)),
        (Key::N(k), KeyOp::Active) => s.timer_min_active(k),
    };
    let mut w = wh.borrow_mut();
    w.in_api -= 1;
    let now = w.now;
    let run_idx = w.run_idx;
    match idx {
        None => {
            tr!(w, "   ... -> {}", ans);
            if w.timers.iter().any(|t| t.st == St::Pending) {
                w.n_default_with_pending += 1;
            }
            if ans {
                w.rep.viol(
                    &["C10"],
                    "default-key-true",
                    format!("Default key ({:?}) answered true to {:?}", sel, op),
                );
            }
        }
        Some(i) => {
            let zone2 = {
                let t = &w.timers[i];
                w.zone2(t)
            };
            let (st, kind, eff) = {
                let t = &w.timers[i];
                (t.st, t.kind, t.eff)
            };
            tr!(
                w,
                "   ... ({:?},{:?}) -> {}{}",
                kind,
                st,
                ans,
                if zone2 { " [due in this run, callback not yet seen]" } else { "" }
            );
            if st != St::Pending {
                // Stale key: how many slots of that kind were freed since?
                let k = match kind {
                    Kind::Fixed => 0,
                    Kind::Max => 1,
                    Kind::Min => 2,
                };
                if w.slots_freed[k] + w.slots_freed[(k + 1) % 3] + w.slots_freed[(k + 2) % 3] >= 2
                    && w.timers.len() > i + 1
                {
                    w.n_stale_reuse += 1;
                }
                if ans {
                    w.rep.viol(
                        &["C10"],
                        "stale-key-true",
                        format!(
                            "key of t{} ({:?}) answered true to {:?} although the timer already {}",
                            i,
                            kind,
                            op,
                            if st == St::Fired { "fired" } else { "was deleted" }
                        ),
                    );
                }
                return;
            }
            if !zone2 {
                if !ans {
                    w.rep.viol(
                        &["C10"],
                        "live-key-false",
                        format!(
                            "key of pending timer t{} ({:?}, expiry {}, now {}) answered false to {:?}",
                            i,
                            kind,
                            fmt_off(eff),
                            fmt_off(now),
                            op
                        ),
                    );
                    return;
                }
            } else if !ans {
                let t = &mut w.timers[i];
                t.answered_false = true;
                t.must_fire_run = Some(run_idx);
                return;
            } else if w.timers[i].answered_false {
                w.rep.viol(
                    &["C10"],
                    "false-then-true",
                    format!("key of t{} answered false and later true", i),
                );
                return;
            }
            // Answer was true on a pending timer: apply the effect to the model
            match op {
                KeyOp::Del => {
                    // Was it the head of the queue?
                    let d = eff.max(w.timers[i].tset);
                    if w.pending_bound(false) == Some(d) {
                        w.n_del_head += 1;
                    }
                    w.timers[i].st = St::Deleted;
                    if w.run_idx > w.timers[i].created_run && kind != Kind::Fixed || w.timers[i].long {
                        w.n_del_requeued += 1;
                    }
                    if !w.timers[i].dropped_unrun {
                        w.rep.viol(
                            &["C05", "C10"],
                            "deleted-closure-kept",
                            format!(
                                "timer t{} ({:?}) was deleted successfully but its callback closure (and whatever it owns) was not dropped by the delete call",
                                i, kind
                            ),
                        );
                    }
                    let k = match kind {
                        Kind::Fixed => 0,
                        Kind::Max => 1,
                        Kind::Min => 2,
                    };
                    w.slots_freed[k] += 1;
                }
                KeyOp::Upd(e) => {
                    w.n_upd_var += 1;
                    if e <= now {
                        w.n_upd_at_or_before_now += 1;
                    }
                    if e % STEP != 0 {
                        w.n_upd_subtick += 1;
                    }
                    if e - now > 9 * 3600 * SEC {
                        w.n_upd_far += 1;
                    }
                    let t = &mut w.timers[i];
                    t.updated = true;
                    let changed = match kind {
                        Kind::Max => e > t.eff,
                        Kind::Min => e < t.eff,
                        Kind::Fixed => false,
                    };
                    if changed {
                        t.eff = e;
                        t.tset = now;
                        let b = w.per_timer_budget(e);
                        w.budget += b;
                    }
                }
                KeyOp::Active => {}
            }
        }
    }
}

/// C09 checks on next_expiry / next_wait / next_wait_max
fn check_next(wh: &Wh, s: &mut Stakker) {
    let ne = s.next_expiry();
    let mut w = wh.borrow_mut();
    let in_run = w.in_run;
    let any_pending = w.timers.iter().any(|t| t.st == St::Pending);
    let snow = to_off(s.now());
    if !in_run {
        if ne.is_none() && any_pending {
            w.rep.viol(
                &["C09"],
                "next-expiry-none",
                "next_expiry() is None although a timer is pending".into(),
            );
        }
        if ne.is_some() && !any_pending {
            w.rep.viol(
                &["C09"],
                "next-expiry-some",
                format!(
                    "next_expiry() is {} although no timer is pending",
                    fmt_off(to_off(ne.unwrap()))
                ),
            );
        }
    }
    if let Some(e) = ne {
        let off = to_off(e);
        if off <= snow {
            w.rep.viol(
                &["C09"],
                "next-expiry-not-future",
                format!(
                    "next_expiry() {} is not strictly later than now {}",
                    fmt_off(off),
                    fmt_off(snow)
                ),
            );
        }
        if let Some(b) = w.pending_bound(in_run) {
            if off > b + STEP {
                w.rep.viol(
                    &["C09"],
                    "oversleep",
                    format!(
                        "next_expiry() {} is {} ns later than one step after the earliest pending deadline {}",
                        fmt_off(off),
                        off - (b + STEP),
                        fmt_off(b)
                    ),
                );
            }
            // Statistics: does the earliest deadline belong to an updated var timer?
            if w
                .timers
                .iter()
                .any(|t| t.st == St::Pending && t.updated && t.eff.max(t.tset) == b)
            {
                w.n_head_var_updated += 1;
            }
        }
    }
}

fn check_waits(wh: &Wh, s: &mut Stakker, n_off: i64, maxdur: Duration, pending: bool) {
    let ne = s.next_expiry();
    let n = inst(n_off);
    let nw = s.next_wait(n);
    let nwm = s.next_wait_max(n, maxdur, pending);
    let exp_nw = ne.map(|e| e.saturating_duration_since(n));
    let exp_nwm = if pending {
        Duration::from_secs(0)
    } else {
        match exp_nw {
            Some(d) => d.min(maxdur),
            None => maxdur,
        }
    };
    let mut w = wh.borrow_mut();
    tr!(
        w,
        "next_wait({}) -> {:?}; next_wait_max(.., {:?}, {}) -> {:?}",
        fmt_off(n_off),
        nw,
        maxdur,
        pending,
        nwm
    );
    if nw != exp_nw {
        w.rep.viol(
            &["C09"],
            "next-wait",
            format!(
                "next_wait({}) = {:?} but next_expiry() = {:?} implies {:?}",
                fmt_off(n_off),
                nw,
                ne.map(|e| fmt_off(to_off(e))),
                exp_nw
            ),
        );
    }
    if nwm != exp_nwm {
        w.rep.viol(
            &["C09"],
            "next-wait-max",
            format!(
                "next_wait_max({}, {:?}, {}) = {:?}, expected {:?}",
                fmt_off(n_off),
                maxdur,
                pending,
                nwm,
                exp_nwm
            ),
        );
    }
}

fn do_run(wh: &Wh, s: &mut Stakker, now_arg: i64) {
    {
        let mut w = wh.borrow_mut();
        w.run_idx += 1;
        w.in_run = true;
        w.run_advanced = now_arg > w.now;
        let old = w.now;
        if w.run_advanced {
            w.now = now_arg;
        } else if w.timers.iter().any(|t| t.st == St::Pending && t.eff <= old) {
            w.n_nonadv_runs_with_due += 1;
        }
        if w.run_advanced {
            let span = now_arg - old;
            if span >= 32767 * SEC && w.timers.iter().any(|t| t.st == St::Pending) {
                w.n_cross_32767 += 1;
            }
            if span >= 2 * 32767 * SEC && w.timers.iter().any(|t| t.st == St::Pending) {
                w.n_multi_period_run += 1;
            }
            if w
                .timers
                .iter()
                .any(|t| t.st == St::Pending && (t.eff - now_arg).abs() <= 2 * STEP)
            {
                w.n_near_run += 1;
            }
        }
        w.fire_log.clear();
        w.entry_items = w.deferred_outstanding;
        tr!(
            w,
            "run({}){}",
            fmt_off(now_arg),
            if w.run_advanced { "" } else { " [does not advance time]" }
        );
    }
    s.run(inst(now_arg), false);
    let mut w = wh.borrow_mut();
    w.in_run = false;
    let now = w.now;
    let run_idx = w.run_idx;
    let snow = to_off(s.now());
    if snow != now {
        w.rep.viol(
            &["C15"],
            "now-after-run",
            format!(
                "Core::now() is {} after run, greatest instant passed is {}",
                fmt_off(snow),
                fmt_off(now)
            ),
        );
    }
    let mut late: Option<String> = None;
    let mut nofire: Option<String> = None;
    for (i, t) in w.timers.iter().enumerate() {
        if t.st != St::Pending {
            continue;
        }
        if t.must_fire_run == Some(run_idx) {
            nofire = Some(format!(
                "key of t{} ({:?}) answered false during run {} but the timer did not fire in that run",
                i, t.kind, run_idx
            ));
        }
        if w.run_advanced && now >= t.eff.max(t.tset) + STEP {
            late = Some(format!(
                "timer t{} ({:?}) still pending after run({}): effective expiry {}, set at {}, i.e. {} ns past the deadline",
                i,
                t.kind,
                fmt_off(now),
                fmt_off(t.eff),
                fmt_off(t.tset),
                now - (t.eff.max(t.tset) + STEP)
            ));
        }
    }
    if let Some(m) = nofire {
        w.rep.viol(&["C10"], "false-but-no-fire", m);
    }
    if let Some(m) = late {
        w.rep.viol(&["C08"], "late", m);
    }
    // C19: order among fixed (short) timers fired in this run
    let log = std::mem::take(&mut w.fire_log);
    let fixed: Vec<usize> = log
        .iter()
        .copied()
        .filter(|&i| w.timers[i].kind == Kind::Fixed && !w.timers[i].long)
        .collect();
    w.max_fixed_in_run = w.max_fixed_in_run.max(fixed.len() as u32);
    let mut distinct_far = false;
    let mut share = false;
    let mut bad: Option<String> = None;
    for a in 0..fixed.len() {
        for b in (a + 1)..fixed.len() {
            let (ta, tb) = (&w.timers[fixed[a]], &w.timers[fixed[b]]);
            let (da, db) = (ta.eff.max(ta.created), tb.eff.max(tb.created));
            if (da - db).abs() >= 2 * STEP {
                distinct_far = true;
            }
            if ta.eff == tb.eff {
                share = true;
            }
            // a ran before b
            if db + 2 * STEP <= da {
                bad = Some(format!(
                    "fixed timer t{} (deadline {}) ran before t{} (deadline {}) in one run although its deadline is {} ns later",
                    fixed[a],
                    fmt_off(da),
                    fixed[b],
                    fmt_off(db),
                    da - db
                ));
            }
            if ta.eff == tb.eff && ta.created == tb.created && ta.cseq > tb.cseq {
                bad = Some(format!(
                    "fixed timers t{} and t{} were given the identical instant {} at the same time but ran in reverse creation order",
                    fixed[b], fixed[a], fmt_off(ta.eff)
                ));
            }
        }
    }
    if fixed.len() >= 3 && distinct_far && share {
        w.c19_nt = true;
    }
    if let Some(m) = bad {
        w.rep.viol(&["C19"], "fixed-order", m);
    }
}

// ---------------------------------------------------------------------------
// Decoding

fn gen_delta(c: &mut Cur) -> i64 {
    let mag = match c.weighted(&[3, 4, 4, 4, 4, 3, 2, 2, 1]) {
        0 => 0,
        1 => 1 + c.pick16(3 * STEP as usize) as i64,
        2 => c.pick(10) as i64 * STEP + [0i64, -1, 1, 8191][c.pick(4)],
        3 => (1 + c.pick16(2000) as i64) * MS + [0i64, 1, 500_000, STEP - 1][c.pick(4)],
        4 => (1 + c.pick16(300) as i64) * SEC + c.pick32(SEC as u64) as i64 * c.pick(2) as i64,
        5 => 32767 * SEC + (c.pick(9) as i64 - 4) * STEP + [0i64, -1, 1][c.pick(3)]
            + (c.pick(5) as i64 - 2) * SEC * c.pick(2) as i64,
        6 => [65535i64, 65536, 32768, 2 * 32767][c.pick(4)] * SEC
            + (c.pick(9) as i64 - 4) * STEP
            + [0i64, -1, 1][c.pick(3)],
        7 => (1 + c.pick(60) as i64) * 3600 * SEC + c.pick32(3600 * SEC as u64) as i64,
        _ => (1 + c.pick(5) as i64) * 86400 * SEC + c.pick32(86400 * SEC as u64) as i64,
    };
    mag.max(0)
}

/// An absolute offset chosen relative to an anchor; may be in the past
fn gen_instant(c: &mut Cur, w: &W) -> i64 {
    let anchor = match c.weighted(&[8, 3, 1, 2]) {
        0 => w.now,
        1 => {
            // a pending timer's expiry
            let n = w.timers.len();
            if n == 0 {
                w.now
            } else {
                let i = c.pick(n.min(256));
                w.timers[i].eff
            }
        }
        2 => 0, // t0
        _ => {
            // just below a whole second (non-canonical tick region)
            let base = (w.now / SEC + 1 + c.pick(4) as i64) * SEC;
            return base - [1i64, 2559, 2560, 2561, 16383, 16384][c.pick(6)];
        }
    };
    let d = gen_delta(c);
    if c.chance(40) {
        anchor - d
    } else {
        anchor + d
    }
}

fn gen_keysel(c: &mut Cur, w: &W) -> KeySel {
    let n = w.timers.len();
    if n == 0 || c.chance(12) {
        return [KeySel::DefF, KeySel::DefX, KeySel::DefN][c.pick(3)];
    }
    // Bias towards recent timers, but any key ever issued can be used
    if c.bool() {
        let k = n.min(8);
        KeySel::Timer(n - 1 - c.pick(k))
    } else {
        KeySel::Timer(c.pick16(n.min(65536)))
    }
}

fn gen_keyop(c: &mut Cur, w: &W) -> KeyOp {
    match c.weighted(&[3, 4, 2]) {
        0 => KeyOp::Del,
        1 => KeyOp::Upd(gen_instant(c, w)),
        _ => KeyOp::Active,
    }
}

fn gen_act(c: &mut Cur, w: &W) -> Act {
    match c.weighted(&[12, 2, 1, 3, 1]) {
        0 => Act::Nothing,
        1 => Act::Add([Kind::Fixed, Kind::Max, Kind::Min][c.pick(3)], {
            let d = gen_delta(c);
            if c.chance(30) {
                -d
            } else {
                d
            }
        }),
        2 => Act::After(gen_delta(c)),
        3 => Act::UseKey(gen_keysel(c, w), gen_keyop(c, w)),
        _ => Act::Query,
    }
}

fn profile(focus: &str) -> [u32; 13] {
    //  run addF after addX addN upd del act dflt defer waits runNE burst
    match focus {
        "C08" => [10, 2, 1, 5, 6, 12, 3, 1, 1, 3, 1, 4, 1],
        "C09" => [8, 3, 2, 4, 4, 6, 5, 1, 1, 2, 6, 6, 1],
        "C10" => [8, 4, 2, 5, 5, 4, 10, 6, 4, 4, 1, 4, 1],
        "C19" => [8, 8, 4, 1, 1, 1, 2, 0, 0, 4, 0, 2, 10],
        "C15" => [14, 4, 2, 3, 3, 3, 2, 1, 0, 4, 1, 2, 2],
        "C05" => [10, 4, 1, 8, 4, 8, 12, 1, 0, 3, 0, 4, 0],
        _ => [10, 4, 2, 4, 4, 6, 4, 2, 1, 3, 1, 4, 2],
    }
}

/// Rules that only observe: the model follows the real timer set as before after one of them, so
/// a history being run to decide another property goes on (otherwise a defect whose first
/// symptom belongs to property Q would hide every later symptom that belongs to P)
const OBSERVATIONAL: &[&str] = &[
    "cb-inside-api",
    "cb-outside-run",
    "timer-now",
    "timer-nonadvancing-run",
    "deleted-fired",
    "early",
    "timer-before-queued-call",
    "fixed-order",
    "deleted-closure-kept",
    "live-key-false",
    "next-expiry-none",
    "next-expiry-some",
    "next-expiry-not-future",
    "oversleep",
    "next-wait",
    "next-wait-max",
    "now-after-run",
];

fn halted(w: &W) -> bool {
    w.rep.violations.iter().any(|v| {
        w.decide.is_empty() || v.props.iter().any(|p| *p == w.decide) || !OBSERVATIONAL.contains(&v.rule)
    })
}

fn new_world(trace: bool) -> W {
    W {
        rep: CaseReport::default(),
        decide: String::new(),
        trace,
        now: 0,
        run_idx: 0,
        in_run: false,
        run_advanced: false,
        in_api: 0,
        timers: Vec::new(),
        cseq: 0,
        fire_log: Vec::new(),
        deferred_outstanding: 0,
        entry_items: 0,
        budget: 8,
        n_upd_var: 0,
        n_near_run: 0,
        n_cross_32767: 0,
        n_upd_at_or_before_now: 0,
        n_upd_subtick: 0,
        n_upd_far: 0,
        n_multi_period_run: 0,
        n_stale_reuse: 0,
        n_default_with_pending: 0,
        n_del_head: 0,
        n_head_var_updated: 0,
        n_inrun_ops: 0,
        slots_freed: [0; 3],
        max_fixed_in_run: 0,
        c19_nt: false,
        n_nonadv_runs_with_due: 0,
        n_del_requeued: 0,
    }
}

pub fn run_case(bytes: &[u8], opts: &Opts) -> CaseReport {
    let wh: Wh = Rc::new(RefCell::new(new_world(opts.trace)));
    {
        let f = opts.focus.as_bytes();
        if f.len() == 3 && f[0] == b'C' && f[1].is_ascii_digit() && f[2].is_ascii_digit() {
            wh.borrow_mut().decide = opts.focus.clone();
        }
    }
    let wh2 = wh.clone();
    let r = crate::pcatch::catch(move || run_body(&wh2, bytes, opts));
    let mut w = wh.borrow_mut();
    if let Err(msg) = r {
        // "No add/update/delete/run sequence panics" is part of C08
        w.rep.viol(&["C08"], "panic", format!("panic during timer history: {}", msg));
    }
    finish(&mut w);
    std::mem::take(&mut w.rep)
}

fn run_body(wh: &Wh, bytes: &[u8], opts: &Opts) {
    let wh = wh.clone();
    let mut c = Cur::new(bytes);
    let weights = profile(&opts.focus);
    let max_ops = if opts.size == 0 { 60 } else { 250 };
    let mut s = Stakker::new(inst(0));
    let s = &mut s;
    let mut ops = 0u64;

    // Optional initial uptime jump, so that histories also start beyond the
    // first 32768 s of the cyclic key range
    if c.chance(64) {
        let up = [1000i64, 32760, 32768, 40000, 65530, 65536, 70000, 131072, 400_000][c.pick(9)]
            * SEC
            + c.pick32(SEC as u64) as i64;
        do_run(&wh, s, up);
        wh.borrow_mut().rep.class("uptime-jump");
    }

    while !c.done() && ops < max_ops {
        ops += 1;
        let opk = c.weighted(&weights);
        match opk {
            0 => {
                // run(now + delta), sometimes not advancing
                let now = wh.borrow().now;
                let d = gen_delta(&mut c);
                let t = if c.chance(36) { now - d } else { now + d };
                do_run(&wh, s, t);
            }
            1 | 3 | 4 => {
                let kind = match opk {
                    1 => Kind::Fixed,
                    3 => Kind::Max,
                    _ => Kind::Min,
                };
                let (e, act) = {
                    let w = wh.borrow();
                    (gen_instant(&mut c, &w), gen_act(&mut c, &w))
                };
                do_add(&wh, s, kind, e, None, act);
            }
            2 => {
                let d = gen_delta(&mut c);
                let act = {
                    let w = wh.borrow();
                    gen_act(&mut c, &w)
                };
                do_add(&wh, s, Kind::Fixed, 0, Some(d), act);
            }
            5 => {
                // update a var timer, preferring pending ones
                let (sel, e) = {
                    let w = wh.borrow();
                    let vars: Vec<usize> = w
                        .timers
                        .iter()
                        .enumerate()
                        .filter(|(_, t)| t.kind != Kind::Fixed && t.st == St::Pending)
                        .map(|(i, _)| i)
                        .collect();
                    let sel = if vars.is_empty() || c.chance(24) {
                        gen_keysel(&mut c, &w)
                    } else {
                        KeySel::Timer(vars[vars.len() - 1 - c.pick(vars.len().min(256))])
                    };
                    (sel, gen_instant(&mut c, &w))
                };
                use_key(&wh, s, sel, KeyOp::Upd(e));
            }
            6 => {
                let sel = {
                    let w = wh.borrow();
                    gen_keysel(&mut c, &w)
                };
                use_key(&wh, s, sel, KeyOp::Del);
            }
            7 => {
                let sel = {
                    let w = wh.borrow();
                    gen_keysel(&mut c, &w)
                };
                use_key(&wh, s, sel, KeyOp::Active);
            }
            8 => {
                let sel = [KeySel::DefF, KeySel::DefX, KeySel::DefN][c.pick(3)];
                let op = {
                    let w = wh.borrow();
                    gen_keyop(&mut c, &w)
                };
                use_key(&wh, s, sel, op);
            }
            9 => {
                // a main-queue item that performs a timer operation in the next run
                let act = {
                    let w = wh.borrow();
                    let mut a = gen_act(&mut c, &w);
                    if let Act::Nothing = a {
                        a = Act::UseKey(gen_keysel(&mut c, &w), gen_keyop(&mut c, &w));
                    }
                    a
                };
                {
                    let mut w = wh.borrow_mut();
                    w.deferred_outstanding += 1;
                    tr!(w, "defer item: {:?}", act);
                }
                let wh2 = wh.clone();
                s.defer(move |s| {
                    {
                        let mut w = wh2.borrow_mut();
                        w.deferred_outstanding -= 1;
                        if w.entry_items > 0 {
                            w.entry_items -= 1;
                        }
                        tr!(w, "  item runs: {:?}", act);
                    }
                    do_act(&wh2, s, act);
                });
            }
            10 => {
                let now = wh.borrow().now;
                let d = gen_delta(&mut c);
                let n = if c.bool() { now + d } else { now - d };
                let maxdur = match c.pick(4) {
                    0 => Duration::from_secs(0),
                    1 => Duration::from_nanos(1 + c.pick32(5 * SEC as u64)),
                    2 => Duration::from_secs(1 + c.pick32(200_000)),
                    _ => Duration::from_secs(u32::MAX as u64 * 1000),
                };
                let pending = c.chance(64);
                check_waits(&wh, s, n, maxdur, pending);
            }
            11 => {
                // run at next_expiry (+/- 1ns sometimes)
                if let Some(e) = s.next_expiry() {
                    let off = to_off(e) + [0i64, 0, 0, -1, 1][c.pick(5)];
                    do_run(&wh, s, off);
                } else {
                    let now = wh.borrow().now;
                    do_run(&wh, s, now);
                }
            }
            _ => {
                // burst of fixed timers sharing instants or closely spaced (C19)
                let n = 2 + c.pick(if opts.size == 0 { 12 } else { 38 });
                let (base, spacing) = {
                    let w = wh.borrow();
                    (
                        gen_instant(&mut c, &w),
                        [0i64, 1, STEP / 2, STEP, 2 * STEP, 2 * STEP + 1, 3 * STEP, MS, SEC, 977 * SEC]
                            [c.pick(10)],
                    )
                };
                for _ in 0..n {
                    let k = c.pick(6) as i64;
                    let e = base + k * spacing;
                    if c.chance(40) {
                        let now = wh.borrow().now;
                        do_add(&wh, s, Kind::Fixed, 0, Some((e - now).max(0)), Act::Nothing);
                    } else {
                        do_add(&wh, s, Kind::Fixed, e, None, Act::Nothing);
                    }
                }
            }
        }
        if halted(&wh.borrow()) {
            break;
        }
        check_next(&wh, s);
        if halted(&wh.borrow()) {
            break;
        }
    }

    // Drain: follow next_expiry until the timer set is empty (C09 progress, C08 exactly once)
    if !halted(&wh.borrow()) {
        let mut iters = 0u64;
        loop {
            let ne = s.next_expiry();
            let e = match ne {
                Some(e) => e,
                None => break,
            };
            iters += 1;
            let budget = wh.borrow().budget;
            if iters > budget {
                let mut w = wh.borrow_mut();
                let pend = w.timers.iter().filter(|t| t.st == St::Pending).count();
                w.rep.viol(
                    &["C09"],
                    "no-progress",
                    format!(
                        "running at next_expiry() did not empty the timer set within {} iterations ({} timers still pending)",
                        budget, pend
                    ),
                );
                break;
            }
            do_run(&wh, s, to_off(e));
            if halted(&wh.borrow()) {
                break;
            }
            check_next(&wh, s);
            if halted(&wh.borrow()) {
                break;
            }
        }
        let mut w = wh.borrow_mut();
        if !halted(&w) {
            let left: Vec<usize> = w
                .timers
                .iter()
                .enumerate()
                .filter(|(_, t)| t.st == St::Pending)
                .map(|(i, _)| i)
                .collect();
            if !left.is_empty() {
                w.rep.viol(
                    &["C08"],
                    "never-fired",
                    format!(
                        "timers {:?} never fired although next_expiry() is None (timer set drained)",
                        left
                    ),
                );
            }
        }
    }

    wh.borrow_mut().rep.ops = ops;
}

fn finish(w: &mut W) {
    // Non-trivial rules
    if w.n_upd_var > 0 || w.n_near_run > 0 || w.n_cross_32767 > 0 {
        w.rep.nt("C07");
    }
    if w.n_upd_at_or_before_now > 0 || w.n_upd_subtick > 0 && w.n_upd_var > 0 && w.n_upd_far > 0 || w.n_multi_period_run > 0 {
        w.rep.nt("C08");
    }
    let kinds = {
        let mut k = [false; 3];
        for t in &w.timers {
            k[match t.kind {
                Kind::Fixed => 0,
                Kind::Max => 1,
                Kind::Min => 2,
            }] = true;
        }
        k.iter().filter(|x| **x).count()
    };
    if w.n_head_var_updated > 0 || w.n_del_head > 0 || kinds >= 2 {
        w.rep.nt("C09");
    }
    if w.n_stale_reuse > 0 || w.n_default_with_pending > 0 {
        w.rep.nt("C10");
    }
    if w.c19_nt {
        w.rep.nt("C19");
    }
    if w.n_nonadv_runs_with_due > 0 {
        w.rep.nt("C15");
    }
    if w.n_del_requeued > 0 {
        w.rep.nt("C05");
    }
    // Classes
    if w.n_upd_at_or_before_now > 0 {
        w.rep.class("var-upd-at-or-before-now");
    }
    if w.n_cross_32767 > 0 {
        w.rep.class("run-jump>=32767s-with-pending");
    }
    if w.n_multi_period_run > 0 {
        w.rep.class("run-jump>=2-periods");
    }
    if w.n_inrun_ops > 0 {
        w.rep.class("timer-op-inside-run");
    }
    if w.n_stale_reuse > 0 {
        w.rep.class("stale-key-after-slot-reuse");
    }
    if w.timers.iter().any(|t| t.long && t.kind == Kind::Fixed) {
        w.rep.class("long-fixed-timer");
    }
    if w.timers.iter().any(|t| t.eff < 0) {
        w.rep.class("expiry-before-start-instant");
    }
    if w.max_fixed_in_run >= 3 {
        w.rep.class("run-fires>=3-fixed");
    }
    if w.n_nonadv_runs_with_due > 0 {
        w.rep.class("nonadvancing-run-with-due-timer");
    }
}

// ---------------------------------------------------------------------------
// Scripted histories (regression scenarios that bypass the byte decoder)

#[derive(Clone, Copy, Debug)]
pub enum SOp {
    AddFixed(i64),
    AddMax(i64),
    AddMin(i64),
    /// (timer index, new expiry)
    Upd(usize, i64),
    Del(usize),
    Active(usize),
    Run(i64),
    RunNext,
}

pub fn run_script(ops: &[SOp], trace: bool) -> CaseReport {
    let wh: Wh = Rc::new(RefCell::new(new_world(trace)));
    let wh2 = wh.clone();
    let r = crate::pcatch::catch(move || {
        let wh = wh2;
        let mut s = Stakker::new(inst(0));
        let s = &mut s;
        for op in ops {
            match *op {
                SOp::AddFixed(e) => do_add(&wh, s, Kind::Fixed, e, None, Act::Nothing),
                SOp::AddMax(e) => do_add(&wh, s, Kind::Max, e, None, Act::Nothing),
                SOp::AddMin(e) => do_add(&wh, s, Kind::Min, e, None, Act::Nothing),
                SOp::Upd(i, e) => use_key(&wh, s, KeySel::Timer(i), KeyOp::Upd(e)),
                SOp::Del(i) => use_key(&wh, s, KeySel::Timer(i), KeyOp::Del),
                SOp::Active(i) => use_key(&wh, s, KeySel::Timer(i), KeyOp::Active),
                SOp::Run(t) => do_run(&wh, s, t),
                SOp::RunNext => {
                    if let Some(e) = s.next_expiry() {
                        do_run(&wh, s, to_off(e));
                    }
                }
            }
            if !wh.borrow().rep.violations.is_empty() {
                return;
            }
            check_next(&wh, s);
        }
    });
    let mut w = wh.borrow_mut();
    if let Err(msg) = r {
        w.rep.viol(&["C08"], "panic", format!("panic during timer history: {}", msg));
    }
    std::mem::take(&mut w.rep)
}
