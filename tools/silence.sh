#!/bin/bash
# Run every quick check on the unchanged tree with the given seeds; print anything that is not silent.
cd /verif
for seed in "$@"; do
  for p in C01 C02 C03 C04 C05 C06 C07 C08 C09 C10 C11 C12 C13 C14 C15 C16 C17 C18 C19 C20; do
    out=$(VERIF_SEED=$seed ./check $p 2>&1); rc=$?
    echo "seed=$seed $p rc=$rc $(echo "$out" | grep -v KNOWN-FINDING | tail -1 | cut -c1-160)"
    [ $rc != 0 ] && echo "$out" | grep -E "VIOLATION|INCONCLUSIVE|^  " | head -5
  done
done
