//! Property table: which engines (legs) decide each property, with what
//! budgets, and the always-run replay set of committed findings.

use crate::{run_pbt_leg, LegResult, VERIF};
use serde_json::{json, Value};
use std::fs;
use std::path::Path;
use std::process::Command;
use std::time::Instant;

pub enum Leg {
    /// proptest over byte strings decoded by a vcore engine
    Pbt {
        engine: &'static str,
        focus: &'static str,
        quick: u32,
        thorough: u32,
        len_q: (usize, usize),
        len_t: (usize, usize),
    },
    /// deterministic boundary sweep of the queue differential (enumeration inside the generator)
    QueueSweep { jmax_q: usize, jmax_t: usize },
    /// the VM program stream on one vrun process per supported feature set
    Matrix,
    /// the program stream on the feature sets that include `logger`, with a recording logger
    MatrixLogger,
    /// schedule exploration with shuttle (vsched binary, hooks on)
    Sched { quick: u32, thorough: u32 },
    /// real-thread waker scenarios under Miri (data-race detector, weak-memory emulation)
    Miri { quick_seeds: u32, thorough_seeds: u32 },
    /// coverage-guided fuzzing (libFuzzer + ASan) of an engine; thorough tier only
    Fuzz { target: &'static str, runs: u64 },
}

pub struct PropSpec {
    /// below this many distinct non-trivial cases the run is reported inconclusive (exit 2)
    pub min_nontrivial: usize,
    pub id: &'static str,
    pub legs: Vec<Leg>,
    pub rule: &'static str,
    pub assumptions: Vec<&'static str>,
}

const A_TIMERS: &[&str] = &[
    "virtual time is owned by the harness: Instant::now() is read once per process as an opaque epoch, every instant is epoch + generated offset",
    "timer keys are only used on the Stakker that issued them; histories span at most about 10 days of virtual time",
    "timer callbacks and main-queue items do not re-enter run(); generated operations inside callbacks are one level deep",
    "trusted: rustc/std, proptest RNG and shrinker, the harness deadline model (bounds are the property's own +-1 step, quantisation is not replicated)",
];

pub fn is_pbt_engine(e: &str) -> bool {
    matches!(e, "timers" | "scenario" | "queues" | "vm")
}

fn timers_legs(focus: &'static str, quick: u32, thorough: u32) -> Vec<Leg> {
    vec![timers_leg(focus, quick, thorough), Leg::Fuzz { target: "timers", runs: 1_000_000 }]
}

fn timers_leg(focus: &'static str, quick: u32, thorough: u32) -> Leg {
    Leg::Pbt {
        engine: "timers",
        focus,
        quick,
        thorough,
        len_q: (0, 400),
        len_t: (0, 1200),
    }
}

pub fn all() -> Vec<PropSpec> {
    let mut v = all_base();
    v.extend(vm_specs());
    v.push(PropSpec {
        min_nontrivial: 200,
        id: "C18",
        legs: vec![Leg::Matrix],
        rule: "programs generated as for C01-C06/C16 (matrix mode: no deferral after the Stakker is gone, whose destination differs per deferrer by documented design) are executed by 19 vrun processes, one per feature set printed by /repo/run-feature-combinations plus the default set; cases = programs, each executed on every set; non-trivial = the program touches at least three of: an actor with held Prep calls (flushed or discarded), a Drop-handler deferral, a timer firing, main queue grown beyond 1 KiB; distinct = distinct byte strings",
        assumptions: vec![
            "the 18 feature sets are regenerated from /repo/run-feature-combinations at check time; sets outside that list are not run",
            "matrix builds use a reduced closure-shape family (32 shapes, dense just below the 1, 2 and 4 KiB buffer sizes) to keep 20 builds fast; the full family is exercised by C01/C17",
            "each vrun also runs the lock-step monitor, so every set individually gets the C01-C06 oracles; the trace hash covers item starts with the now value seen, un-run drops, Ret/Fwd handler invocations, notifications with cause and payload tag, value drops, message drops, returned bools/Options/lens",
            "Actor::id()/LogID values and logger output are not part of the trace (documented to differ without the logger feature)",
        ],
    });
    let a_sched: Vec<&'static str> = vec![
        "stakker is rebuilt with --cfg uazu_stakker_verif so that sync/waker.rs, sync/channel.rs and sync/thread.rs use shuttle's Arc/Mutex/Condvar/AtomicUsize/thread::spawn; every atomic or lock operation is a scheduling point (features inter-thread, multi-stakker, multi-thread so that a Stakker abandoned by a failed execution does not block the next one)",
        "shuttle explores sequentially consistent interleavings only; Mutex and Condvar are trusted as primitives; weak-memory reorderings are outside this leg",
        "the main thread calls poll_wake() only in response to poll-waker callbacks (an event loop blocked on a condvar standing in for poll()); a lost wake-up shows up as a missing delivery at quiescence or as a deadlock reported by shuttle",
        "trusted: rustc/std, proptest, shuttle's scheduler and its replacement primitives",
    ];
    for (id, rule) in [
        ("C11", "cases = (scenario, schedule) executions; scenario bytes decode into 1-4 wakers placed in the same bitmap word, in different words (64 fillers) or in different bitmaps (4100 fillers), 1-3 worker threads with scripts of wake/yield/drop-reference/panic, the main thread answering poll-wakes; each scenario runs under the byte-driven schedule and 8 (quick) / 24 (thorough) seeded random and PCT (depth 1-5) schedules; non-trivial = at least two threads call wake(); distinct = distinct (scenario, schedule) pairs"),
        ("C12", "as C11 with scripts weighted towards dropping references (also by unwinding from a panicking worker), the main thread holding and dropping references between polls and creating new wakers (optionally waking them) after each observed deleted=true so that freed slots are reused; non-trivial = a reference is dropped in mid-script or by unwinding, or a slot is reused by a new waker; distinct = distinct (scenario, schedule) pairs"),
        ("C13", "scenario bytes decode into 1-3 sender threads sending 1-2 messages each with is_closed polls and yields, the ChannelGuard dropped before collection, after k answered poll-wakes, or only at the end; non-trivial = at least two senders or a guard drop while senders may still run; distinct = distinct (scenario, schedule) pairs"),
        ("C14", "scenario bytes decode into a worker script over recv/send/cancel/yield with a panic inserted at any script position (echo shape: main sends k messages and waits for k replies before dropping, so a lost notification cannot be masked by cancellation; free shape: main never blocks before the final drop) and a main script of sends, yields and poll responses; non-trivial = the worker script has at least two recv/send operations; distinct = distinct (scenario, schedule) pairs"),
    ] {
        v.push(PropSpec {
            min_nontrivial: 500,
            id,
            legs: if id == "C11" {
                vec![Leg::Sched { quick: 320_000, thorough: 4_000_000 }, Leg::Miri { quick_seeds: 24, thorough_seeds: 200 }]
            } else if id == "C12" {
                vec![Leg::Sched { quick: 200_000, thorough: 1_200_000 }]
            } else {
                vec![Leg::Sched { quick: 320_000, thorough: 6_000_000 }]
            },
            rule,
            assumptions: a_sched.clone(),
        });
    }
    v.push(PropSpec {
        min_nontrivial: 200,
        id: "C20",
        legs: vec![Leg::MatrixLogger],
        rule: "actor programs (C02-C04 shape: every init style, stop/fail/kill/owner-drop, actors created from the top level, from Prep/Ready methods and in slabs) run in each of the 7 feature sets that include logger (6 of the 18 supported plus logger alone) with a recording logger installed under one of 9 filters built with from_str/all/|/new, changed once mid-program with set_log_filter; after every run each of the 9 levels is probed with core.log and log_check; non-trivial = >= 3 actors, >= 2 different causes, >= 1 child with a non-zero parent id and >= 1 generated record blocked by the filter; distinct = distinct byte strings",
        assumptions: vec![
            "the logger callback only records (logging from inside the logger is dropped by design)",
            "reference reading of LogFilter used as oracle: a severity level enables itself and everything above up to Error, Audit stands alone, Open and Close come together, Off enables nothing",
            "Open is checked right after creation returns, Close at the moment the notifier is invoked (the Close record is written just before the notification)",
        ],
    });
    v
}

fn vm_leg(focus: &'static str, quick: u32, thorough: u32) -> Leg {
    Leg::Pbt {
        engine: "vm",
        focus,
        quick,
        thorough,
        len_q: (0, 300),
        len_t: (0, 1200),
    }
}

const A_VM: &[&str] = &[
    "generated programs stay inside the documented caller contract: no re-entrant run(), no ownership cycles (owners only flow into bags that are dropped), Drop-handler deferral chains <= 96 generations, captures <= 4 KiB, virtual time on a 1 ms grid with timer expiries on the half-ms grid (sub-tick behaviour belongs to the timer engine)",
    "one Stakker per process thread (default features): cases run sequentially per worker process; Core::new discards what a previous Stakker left in the global queue",
    "known finding F2 (abrupt drop(stakker) with a Prep actor holding calls / a live slab parent with children) is excluded by construction and counted; its two replay programs run on every check of C05/C16",
    "trusted: rustc/std, proptest, the specification-level monitor (validated by the mutant self-test in both directions)",
];

fn vm_specs() -> Vec<PropSpec> {
    let mk = |id: &'static str, rule: &'static str| PropSpec {
        min_nontrivial: 1000,
        id,
        legs: match id {
            "C01" => vec![vm_leg(id, 600_000, 8_000_000), Leg::Fuzz { target: "prog", runs: 20_000 }],
            "C06" => vec![vm_leg(id, 3_000_000, 36_000_000)],
            "C16" => vec![vm_leg(id, 1_200_000, 30_000_000), Leg::Fuzz { target: "prog", runs: 20_000 }],
            "C15" => vec![vm_leg(id, 6_000_000, 80_000_000), timers_leg("C15", 2_000_000, 30_000_000)],
            "C05" => vec![vm_leg(id, 8_000_000, 120_000_000), timers_leg("C05", 2_000_000, 30_000_000)],
            _ => vec![vm_leg(id, 8_000_000, 150_000_000)],
        },
        rule,
        assumptions: A_VM.to_vec(),
    };
    vec![
        mk("C01", "byte strings decoded into programs (trees of closures submitting closures via Core::defer, Deferrer::defer, Actor::defer, call!, lazy!/idle!/timers, actors, Drop-handler tokens, run sequences, abrupt or orderly shutdown) executed on the real Stakker under the lock-step monitor; non-trivial = re-entrant submission depth >= 2 and (main queue > 1 KiB pending, or a run crossing the 60 s queue recreation, or a Drop-handler submission, or Stakker dropped with >= 1 pending closure); distinct = distinct byte strings"),
        mk("C02", "programs weighted towards actors with immediate/asynchronous/failing/never-completing init and calls in flight; non-trivial = (>= 2 calls made while the target was Prep, >= 1 held call flushed at Ready, >= 1 call after Ready) or a termination taking effect with calls queued behind it and >= 1 call discarded; distinct = distinct byte strings"),
        mk("C03", "programs weighted towards stacked stop/fail/kill!/direct kill/owner-drop requests; non-trivial = >= 2 termination requests aimed at one actor, or termination of a Prep actor with held calls; distinct = distinct byte strings"),
        mk("C04", "programs weighted towards owned()/anon()/slab/clone/drop of owning and non-owning references held in locals, global registers, queued closures and actor state; non-trivial = an owner dropped while another owner of the same actor exists, or a parent with grandchildren terminated, or a slab with >= 2 children and >= 1 termination; distinct = distinct byte strings"),
        mk("C05", "programs weighted towards Ret::new / ret_some_do! / ret_to! / ret_some_to! / prep-style Rets moved into closures, messages, timers and actor state, answered or abandoned; non-trivial = a Ret abandoned outside run/inside Stakker drop, or inside a discarded call, or in calls held by a terminating Prep actor (vm leg); timer leg: timer histories in which every callback closure carries a drop guard and a successful delete must drop it inside the delete call - non-trivial = a Min/Max or long fixed timer deleted after a run re-queued it; distinct = distinct byte strings"),
        mk("C06", "programs weighted towards lazy!/idle!/defer items submitting each other with arbitrary run(now, idle) sequences; non-trivial = a lazy item deferred main-queue work and a run with idle=true executed an idle item while more idle items waited; distinct = distinct byte strings"),
        mk("C15", "programs weighted towards run() instants that increase, repeat, go backwards and jump; non-trivial = a non-advancing run with work queued and an idle item executed in a run that advanced time (vm leg), or a non-advancing run while a timer was already due (timer leg: no callback may run then); distinct = distinct byte strings"),
        mk("C16", "programs with clone/drop storms on Actor/ActorOwn/Fwd/Deferrer and moves of Ret, checked by the item/message/handle registries and the per-case allocation-balance oracle (live heap allocations before == after, confirmed by re-execution); non-trivial = (main queue grown beyond 2 KiB or recreated) with >= 20 clone/drop operations, or an actor freed by its last weak reference after termination; distinct = distinct byte strings"),
    ]
}

fn all_base() -> Vec<PropSpec> {
    vec![
        PropSpec {
            min_nontrivial: 1000,
            id: "C07",
            legs: timers_legs("C07", 6_000_000, 45_000_000),
            rule: "cases are byte strings decoded into timer histories (add/after/max/min add, upd, del, active, run, next_* from top level, main-queue items and timer callbacks); non-trivial = history contains a successful update of a Min/Max timer, or an expiry within 2 resolution steps of a run instant or of the creation time, or a run jumping >= 32767 s with a timer pending; distinct = distinct byte strings (FNV-1a hash)",
            assumptions: A_TIMERS.to_vec(),
        },
        PropSpec {
            min_nontrivial: 1000,
            id: "C08",
            legs: timers_legs("C08", 6_000_000, 45_000_000),
            rule: "timer histories weighted towards Min/Max updates and large jumps; non-trivial = a Min/Max timer was successfully updated to an instant at/before the current time, or (updated at a sub-tick offset and beyond 9 h), or a single run spanned >= 2 re-queue periods (65534 s) with timers pending; distinct = distinct byte strings",
            assumptions: A_TIMERS.to_vec(),
        },
        PropSpec {
            min_nontrivial: 1000,
            id: "C09",
            legs: timers_legs("C09", 6_000_000, 45_000_000),
            rule: "timer histories with next_expiry() checked after every operation and next_wait/next_wait_max with generated now/maxdur/pending; every history ends with the drain loop `while let Some(e) = next_expiry() { run(e) }` under an iteration budget; non-trivial = the earliest deadline belonged to an updated Min/Max timer at some check, or a delete removed the earliest deadline, or the set mixed >= 2 timer kinds; distinct = distinct byte strings",
            assumptions: A_TIMERS.to_vec(),
        },
        PropSpec {
            min_nontrivial: 1000,
            id: "C10",
            legs: timers_legs("C10", 6_000_000, 45_000_000),
            rule: "timer histories where any key ever issued (and the Default key of each kind) may be used at any time; non-trivial = a key was used after its timer fired/was deleted and after >= 2 slots had been freed and another timer created since, or a Default key was used while a timer was pending; distinct = distinct byte strings",
            assumptions: A_TIMERS.to_vec(),
        },
        PropSpec {
            min_nontrivial: 1000,
            id: "C19",
            legs: timers_legs("C19", 6_000_000, 45_000_000),
            rule: "timer histories weighted towards bursts of fixed timers (timer_add/after) sharing or nearly sharing instants, expired by single runs; non-trivial = some run fired >= 3 short fixed timers with >= 2 deadlines >= 2 steps apart and >= 2 given the identical instant; distinct = distinct byte strings",
            assumptions: A_TIMERS.to_vec(),
        },
        PropSpec {
            min_nontrivial: 1000,
            id: "C17",
            legs: vec![
                Leg::QueueSweep { jmax_q: 2, jmax_t: 4 },
                Leg::Fuzz { target: "queue", runs: 400_000 },
                Leg::Pbt {
                    engine: "queues",
                    focus: "C17",
                    quick: 1_500_000,
                    thorough: 12_000_000,
                    len_q: (0, 300),
                    len_t: (0, 1500),
                },
            ],
            rule: "leg 1 (sweep, enumerated): for each growth level j (capacity 1 KiB << j), every residual fill level at 8-byte granularity within 4352 bytes of the boundary, every one of 183 closure shapes (sizes 0..4096 x alignments 1..128, dense around powers of two) and both endings (execute / drop), the same operations are applied to flat.rs and boxed.rs compiled side by side and the event logs compared; leg 2 (proptest): byte strings decoded into sequences of push/push_box/fill/execute/is_empty/drop over 1-4 queues per implementation, closures that push onto other queues while executing (chains up to depth 3), padding allocations to move buffer addresses; non-trivial = crosses a growth boundary with a probe of alignment >= 16 or size >= 1 KiB, or drops a queue holding a chained old buffer; distinct = distinct sweep points / distinct byte strings",
            assumptions: vec![
                "flat.rs and boxed.rs are compiled straight from /repo/src/queue by #[path] into the harness crate (both files are self-contained); debug assertions and overflow checks are on",
                "captured data is a byte pattern derived from the closure id; a closure that runs or is dropped verifies it, and the whole event log (run/drop/is_empty with a hash of the captured bytes) must be identical between the two implementations",
                "trusted: rustc/std, proptest, the boxed queue as reference (it is 47 lines over Vec<Box<dyn FnOnce>>)",
            ],
        },
    ]
}

pub fn describe_leg(leg: &Leg, thorough: bool) -> Value {
    match leg {
        Leg::Pbt {
            engine,
            focus,
            quick,
            thorough: th,
            len_q,
            len_t,
        } => json!({
            "kind": "proptest over byte strings, sharded over worker processes",
            "engine": engine,
            "focus": focus,
            "cases_requested": if thorough { *th } else { *quick },
            "byte_length_range": if thorough { [len_t.0, len_t.1] } else { [len_q.0, len_q.1] },
        }),
        Leg::MatrixLogger => json!({
            "kind": "proptest programs sent to one persistent vrun process per feature set that includes logger, recording logger installed",
            "programs_requested": if thorough { 8_000_000 } else { 480_000 },
        }),
        Leg::Fuzz { target, runs } => json!({
            "kind": "cargo-fuzz (libFuzzer, AddressSanitizer) campaign over the same byte decoder, oracle inside the target, fresh corpus seeded from harness/vfuzz/seeds, 8 processes",
            "target": target,
            "runs_per_process": if thorough { *runs } else { 0 },
            "note": if thorough { "" } else { "thorough tier only" },
        }),
        Leg::Miri { quick_seeds, thorough_seeds } => json!({
            "kind": "cargo +nightly miri run of /verif/harness/vmiri (real std threads, stakker with no-unsafe-queue), 12 scenarios (6 write-once, 6 re-wake) x seeds via -Zmiri-many-seeds",
            "seeds_per_scenario": if thorough { *thorough_seeds } else { *quick_seeds },
        }),
        Leg::Sched { quick, thorough: th } => json!({
            "kind": "schedule exploration: proptest (scenario bytes, schedule bytes) driving a byte-driven shuttle scheduler, plus seeded random and PCT schedules per scenario",
            "scenarios_requested": if thorough { *th } else { *quick },
            "schedules_per_scenario": 1 + if thorough { 24 } else { 8 },
        }),
        Leg::Matrix => json!({
            "kind": "feature-matrix differential: proptest programs sent to one persistent vrun process per feature set",
            "programs_requested": if thorough { 1_200_000 } else { 160_000 },
        }),
        Leg::QueueSweep { jmax_q, jmax_t } => json!({
            "kind": "deterministic boundary sweep (enumeration), sharded over worker processes",
            "growth_levels": if thorough { *jmax_t } else { *jmax_q },
            "shapes": vcore::shapes::SHAPES.len(),
        }),
    }
}

pub fn run_leg(prop: &str, idx: usize, leg: &Leg, thorough: bool, deadline: Instant) -> LegResult {
    match leg {
        Leg::Pbt {
            engine,
            focus,
            quick,
            thorough: th,
            len_q,
            len_t,
        } => run_pbt_leg(
            prop,
            idx,
            engine,
            focus,
            if thorough { 1 } else { 0 },
            if thorough { *th } else { *quick },
            if thorough { *len_t } else { *len_q },
            deadline,
        ),
        Leg::Fuzz { target, runs } => {
            if thorough {
                run_fuzz(prop, idx, target, *runs, deadline)
            } else {
                LegResult::new()
            }
        }
        Leg::Miri { quick_seeds, thorough_seeds } => run_miri(prop, if thorough { *thorough_seeds } else { *quick_seeds }, deadline),
        Leg::Sched { quick, thorough: th } => run_sched(prop, idx, if thorough { *th } else { *quick }, if thorough { 24 } else { 8 }, deadline),
        Leg::Matrix => crate::matrix::run_leg(prop, idx, thorough, deadline, false),
        Leg::MatrixLogger => crate::matrix::run_leg(prop, idx, thorough, deadline, true),
        Leg::QueueSweep { jmax_q, jmax_t } => run_sweep(prop, idx, if thorough { *jmax_t } else { *jmax_q }, deadline),
    }
}

/// Run the committed replay files of findings recorded for this property.
/// Returns (KNOWN-FINDING lines, violations from fixed findings that returned, number run)
pub fn run_findings(prop: &str) -> (Vec<String>, Vec<(String, String)>, usize) {
    let path = Path::new(VERIF).join("known_findings.json");
    let mut known = Vec::new();
    let mut viol = Vec::new();
    let mut n = 0;
    let v: Value = match fs::read(&path) {
        Ok(b) => serde_json::from_slice(&b).expect("known_findings.json"),
        Err(_) => return (known, viol, 0),
    };
    let exe = std::env::current_exe().unwrap();
    for e in v["findings"].as_array().cloned().unwrap_or_default() {
        let props: Vec<String> = match e["property"].as_array() {
            Some(a) => a.iter().map(|x| x.as_str().unwrap().to_string()).collect(),
            None => vec![e["property"].as_str().unwrap_or("").to_string()],
        };
        if !props.iter().any(|p| p == prop) {
            continue;
        }
        let replay = Path::new(VERIF).join(e["replay"].as_str().unwrap());
        n += 1;
        // Replay files name one property; run it for this property
        let out = Command::new(&exe)
            .args(["replay", replay.to_str().unwrap()])
            .env("VERIF_REPLAY_PROP", prop)
            .output()
            .expect("replay");
        let text = String::from_utf8_lossy(&out.stdout).to_string();
        let violates = out.status.code() == Some(1) || out.status.code().is_none();
        let status = e["status"].as_str().unwrap_or("");
        let rule = e["rules"][prop].as_str().or(e["rule"].as_str()).unwrap_or("");
        if status == "fixed" {
            if violates {
                viol.push((
                    replay.to_string_lossy().to_string(),
                    format!(
                        "finding recorded as fixed has returned: {}",
                        e["what"].as_str().unwrap_or("")
                    ),
                ));
            }
        } else if status == "known" {
            if violates {
                if rule.is_empty() || text.contains(&format!("[{}]", rule)) {
                    known.push(format!(
                        "KNOWN-FINDING: property={} {} ({})",
                        prop,
                        e["signature"].as_str().unwrap_or(""),
                        e["what"].as_str().unwrap_or("")
                    ));
                } else {
                    viol.push((
                        replay.to_string_lossy().to_string(),
                        format!(
                            "known-finding replay fails in a different way than recorded: {}",
                            text.lines().next().unwrap_or("")
                        ),
                    ));
                }
            }
        }
    }
    (known, viol, n)
}

pub fn replay_special(engine: &str, v: &Value, path: &Path, _verbose: bool) -> i32 {
    match engine {
        "fuzz-artifact" => {
            let target = v["target"].as_str().unwrap_or("prog");
            let art = Path::new(VERIF).join(v["artifact"].as_str().unwrap_or(""));
            let st = Command::new(Path::new(VERIF).join(format!("build/fuzz/x86_64-unknown-linux-gnu/release/{}", target)))
                .arg(&art)
                .env("VERIF_FUZZ_PROP", v["property"].as_str().unwrap_or(""))
                .status();
            match st {
                Ok(s) if s.success() => {
                    println!("replay: the fuzz target runs this input cleanly");
                    0
                }
                Ok(_) => {
                    println!("  [fuzz] the fuzz target (ASan build) fails on this input");
                    println!("VIOLATION property={} replay={}", v["property"].as_str().unwrap_or("?"), path.display());
                    1
                }
                Err(e) => {
                    println!("cannot run the fuzz target ({}); build it with `cd harness/vfuzz && cargo +nightly fuzz build --target-dir /verif/build/fuzz`", e);
                    2
                }
            }
        }
        "miri" => {
            let sc = v["scenario"].as_u64().unwrap_or(0);
            let seed = v["miri_seed"].as_u64().unwrap_or(0);
            let (ok, _n, out) = miri_run(sc as u32, seed, seed + 1);
            println!("{}", out.lines().filter(|l| !l.starts_with("warning") && !l.trim().is_empty()).take(40).collect::<Vec<_>>().join("\n"));
            if ok {
                println!("replay: Miri reports nothing for scenario {} seed {}", sc, seed);
                0
            } else {
                println!("  [miri] data race / stale read / UB reported by Miri for waker scenario {} seed {}", sc, seed);
                println!("VIOLATION property=C11 replay={}", path.display());
                1
            }
        }
        "sched" => {
            let st = Command::new(Path::new(VERIF).join("build/sched/release/vsched"))
                .args(["replay", path.to_str().unwrap()])
                .stderr(std::process::Stdio::null())
                .status()
                .expect("vsched (run ./check C11 once to build it)");
            st.code().unwrap_or(1)
        }
        "matrix" => crate::matrix::replay(v, path),
        "matrix-logger" => crate::matrix::replay_logger(v, path),
        "queue-sweep" => {
            let g = |k: &str| v[k].as_u64().unwrap() as usize;
            match vcore::queues::sweep_point(g("j"), g("k"), g("shape"), g("tail")) {
                Ok(_) => {
                    println!("replay: flat and boxed queues agree on this sweep point");
                    0
                }
                Err(m) => {
                    println!("  [sweep-diverge] {}", m);
                    println!("VIOLATION property=C17 replay={}", path.display());
                    1
                }
            }
        }
        _ => {
            eprintln!("no special replay for engine {}", engine);
            2
        }
    }
}

pub fn sweep_worker(a: &[String]) -> i32 {
    // jmax part parts outfile
    let jmax: usize = a[0].parse().unwrap();
    let part: usize = a[1].parse().unwrap();
    let parts: usize = a[2].parse().unwrap();
    let mut rep = vcore::CaseReport::default();
    use std::io::{Seek, SeekFrom, Write};
    let mut inf = fs::File::create(format!("{}.inflight", a[3])).unwrap();
    let (n, nt) = vcore::queues::sweep(jmax, part, parts, &mut rep, |j, k, s, t| {
        let _ = inf.seek(SeekFrom::Start(0));
        let _ = inf.write_all(format!("{:4} {:8} {:4} {:2}\n", j, k, s, t).as_bytes());
    });
    let mut out = json!({"evaluations": n, "nontrivial": nt});
    let mut code = 0;
    if let Some(v) = rep.violations.first() {
        // trace line: "sweep j=.. k=.. shape=.. tail=.."
        let t = rep.trace.last().cloned().unwrap_or_default();
        let num = |key: &str| -> u64 {
            t.split_whitespace()
                .find_map(|w| w.strip_prefix(key).and_then(|x| x.parse().ok()))
                .unwrap_or(0)
        };
        let dir = Path::new(VERIF).join("evidence/replays");
        fs::create_dir_all(&dir).unwrap();
        let path = dir.join(format!(
            "C17-sweep-j{}-k{}-s{}-t{}.json",
            num("j="), num("k="), num("shape="), num("tail=")
        ));
        fs::write(
            &path,
            serde_json::to_vec_pretty(&json!({
                "property": "C17", "engine": "queue-sweep",
                "j": num("j="), "k": num("k="), "shape": num("shape="), "tail": num("tail="),
                "message": v.msg,
            }))
            .unwrap(),
        )
        .unwrap();
        out["violation"] = json!({"replay": path.to_string_lossy(), "message": v.msg});
        code = 1;
    }
    fs::write(&a[3], serde_json::to_vec(&out).unwrap()).unwrap();
    code
}

fn run_sweep(prop: &str, idx: usize, jmax: usize, deadline: Instant) -> LegResult {
    let nw = crate::nworkers() as usize;
    let outdir = Path::new(VERIF).join(format!("build/work/{}-{}", prop, idx));
    let _ = fs::remove_dir_all(&outdir);
    fs::create_dir_all(&outdir).unwrap();
    let exe = std::env::current_exe().unwrap();
    let mut kids = Vec::new();
    for w in 0..nw {
        let out = outdir.join(format!("s{}.json", w));
        let child = Command::new(&exe)
            .args(["sweep", &jmax.to_string(), &w.to_string(), &nw.to_string(), out.to_str().unwrap()])
            .stdout(std::process::Stdio::null())
            .stderr(std::process::Stdio::null())
            .spawn()
            .unwrap();
        kids.push((out, child));
    }
    let mut res = LegResult::new();
    let mut base = 0u64;
    for (out, mut child) in kids {
        let st = loop {
            match child.try_wait().unwrap() {
                Some(st) => break Some(st),
                None => {
                    if Instant::now() > deadline {
                        let _ = child.kill();
                        let _ = child.wait();
                        break None;
                    }
                    std::thread::sleep(std::time::Duration::from_millis(20));
                }
            }
        };
        match (st, fs::read(&out)) {
            (Some(_), Ok(b)) => {
                let v: Value = serde_json::from_slice(&b).unwrap();
                let n = v["evaluations"].as_u64().unwrap_or(0);
                let nt = v["nontrivial"].as_u64().unwrap_or(0);
                res.evaluations += n;
                // sweep points are distinct by construction; give them distinct hash values
                for i in 0..nt {
                    res.nt.insert(0x5EE9_0000_0000_0000u64 ^ (base + i));
                }
                base += 1 << 32;
                if let Some(x) = v.get("violation") {
                    res.violations.push((
                        x["replay"].as_str().unwrap().to_string(),
                        x["message"].as_str().unwrap().to_string(),
                    ));
                }
            }
            (None, _) => res.inconclusive.push("sweep worker exceeded the watchdog".into()),
            (Some(st), Err(_)) => {
                // crashed inside a sweep point: re-run that point in a fresh process
                let inf = fs::read_to_string(format!("{}.inflight", out.display())).unwrap_or_default();
                let nums: Vec<u64> = inf.split_whitespace().filter_map(|x| x.parse().ok()).collect();
                if nums.len() == 4 {
                    let dir = Path::new(VERIF).join("evidence/replays");
                    fs::create_dir_all(&dir).unwrap();
                    let path = dir.join(format!("C17-sweep-j{}-k{}-s{}-t{}.json", nums[0], nums[1], nums[2], nums[3]));
                    fs::write(&path, serde_json::to_vec_pretty(&json!({
                        "property": "C17", "engine": "queue-sweep", "crash": true,
                        "j": nums[0], "k": nums[1], "shape": nums[2], "tail": nums[3],
                        "message": format!("process died ({:?}) while executing this sweep point", st),
                    })).unwrap()).unwrap();
                    let st2 = Command::new(&exe).args(["replay", path.to_str().unwrap()])
                        .env("VERIF_NO_ISOLATE", "1")
                        .stdout(std::process::Stdio::null()).stderr(std::process::Stdio::null()).status().unwrap();
                    if st2.code() != Some(0) {
                        res.violations.push((path.to_string_lossy().to_string(),
                            format!("process died ({:?}) while executing sweep point j={} k={} shape={} tail={} (reproduced: {:?})", st, nums[0], nums[1], nums[2], nums[3], st2)));
                    } else {
                        res.inconclusive.push(format!("sweep worker died ({:?}) but the in-flight point did not reproduce", st));
                    }
                } else {
                    res.inconclusive.push(format!("sweep worker died without a report: {:?}", st));
                }
            }
        }
    }
    res.samples.push(json!({"sweep_point": "growth level 1 (capacity 2048), 250 zero-capture closures queued, probe closure size 2040 align 8, then execute"}));
    res.extra.insert("sweep_points".into(), json!(res.evaluations));
    res
}

fn run_sched(prop: &str, idx: usize, scenarios: u32, extra: u32, deadline: Instant) -> LegResult {
    let nw = crate::nworkers();
    let outdir = Path::new(VERIF).join(format!("build/work/{}-{}", prop, idx));
    let _ = fs::remove_dir_all(&outdir);
    fs::create_dir_all(&outdir).unwrap();
    let exe = Path::new(VERIF).join("build/sched/release/vsched");
    let mut kids = Vec::new();
    for w in 0..nw {
        let out = outdir.join(format!("v{}.json", w));
        let wseed = crate::seed().wrapping_mul(2_654_435_761).wrapping_add(w as u64 * 97);
        let child = Command::new(&exe)
            .args([
                "worker",
                prop,
                &wseed.to_string(),
                &((scenarios + nw - 1) / nw).to_string(),
                &extra.to_string(),
                "48",
                "96",
                out.to_str().unwrap(),
                &w.to_string(),
            ])
            .stdout(std::process::Stdio::null())
            .stderr(std::process::Stdio::null())
            .spawn()
            .expect("vsched");
        kids.push((out, child));
    }
    let mut res = LegResult::new();
    for (out, mut child) in kids {
        let st = loop {
            match child.try_wait().unwrap() {
                Some(st) => break Some(st),
                None => {
                    if Instant::now() > deadline {
                        let _ = child.kill();
                        let _ = child.wait();
                        break None;
                    }
                    std::thread::sleep(std::time::Duration::from_millis(20));
                }
            }
        };
        match (st, fs::read(&out)) {
            (Some(_), Ok(b)) => {
                let v: Value = serde_json::from_slice(&b).unwrap();
                res.evaluations += v["evaluations"].as_u64().unwrap_or(0);
                if let Some(m) = v["classes"].as_object() {
                    for (k, x) in m {
                        *res.classes.entry(k.clone()).or_insert(0) += x.as_u64().unwrap_or(0);
                    }
                }
                for h in v["nt"].as_array().cloned().unwrap_or_default() {
                    res.nt.insert(h.as_u64().unwrap_or(0));
                }
                for s in v["samples"].as_array().cloned().unwrap_or_default() {
                    if res.samples.len() < 3 {
                        res.samples.push(s);
                    }
                }
                if let Some(x) = v.get("violation") {
                    res.violations.push((x["replay"].as_str().unwrap().to_string(), x["message"].as_str().unwrap().to_string()));
                }
            }
            (None, _) => res.inconclusive.push("schedule-exploration worker exceeded the watchdog".into()),
            (Some(st), Err(_)) => res.inconclusive.push(format!("schedule-exploration worker died without a report: {:?}", st)),
        }
    }
    res
}

/// Run vmiri under Miri for seeds lo..hi; returns (all ok, number of ok executions, output)
fn miri_run(scenario: u32, lo: u64, hi: u64) -> (bool, u64, String) {
    let out = Command::new("cargo")
        .args(["+nightly", "miri", "run", "-q", "--", &scenario.to_string()])
        .current_dir(Path::new(VERIF).join("harness/vmiri"))
        .env("MIRIFLAGS", format!("-Zmiri-many-seeds={}..{}", lo, hi))
        .env("CARGO_NET_OFFLINE", "true")
        .output();
    match out {
        Ok(o) => {
            let text = format!("{}{}", String::from_utf8_lossy(&o.stdout), String::from_utf8_lossy(&o.stderr));
            let n = text.lines().filter(|l| l.starts_with("ok scenario")).count() as u64;
            let bad = !o.status.success() || text.contains("Undefined Behavior") || text.contains("STALE");
            (!bad, n, text)
        }
        Err(e) => (false, 0, format!("cannot run cargo miri: {}", e)),
    }
}

fn run_miri(prop: &str, seeds: u32, deadline: Instant) -> LegResult {
    let mut res = LegResult::new();
    let base = crate::seed().wrapping_mul(1000) % 1_000_000;
    // build once (and make sure the tool works at all)
    let (ok0, n0, out0) = miri_run(0, base, base + 1);
    if !ok0 && n0 == 0 && !out0.contains("Undefined Behavior") && !out0.contains("STALE") {
        res.inconclusive.push(format!(
            "cargo +nightly miri run did not work here: {}",
            out0.lines().filter(|l| l.contains("error")).take(3).collect::<Vec<_>>().join(" | ")
        ));
        return res;
    }
    let scenarios: Vec<u32> = (0..12).collect();
    let results: std::sync::Mutex<Vec<(u32, bool, u64, String)>> = std::sync::Mutex::new(Vec::new());
    let next = std::sync::atomic::AtomicUsize::new(0);
    std::thread::scope(|sc| {
        for _ in 0..4 {
            sc.spawn(|| loop {
                let i = next.fetch_add(1, std::sync::atomic::Ordering::SeqCst);
                if i >= scenarios.len() || Instant::now() > deadline {
                    break;
                }
                let (ok, n, out) = miri_run(scenarios[i], base, base + seeds as u64);
                results.lock().unwrap().push((scenarios[i], ok, n, out));
            });
        }
    });
    for (sc, ok, n, out) in results.into_inner().unwrap() {
        res.evaluations += n;
        for k in 0..n {
            res.nt.insert(0x3141_0000_0000_0000 ^ ((sc as u64) << 32) ^ (base + k));
        }
        *res.classes.entry(format!("miri-scenario-{}", sc)).or_insert(0) += n;
        if !ok {
            // find the failing seed
            let mut bad_seed = base;
            for sd in base..base + seeds as u64 {
                let (ok1, _, _) = miri_run(sc, sd, sd + 1);
                if !ok1 {
                    bad_seed = sd;
                    break;
                }
            }
            let dir = Path::new(VERIF).join("evidence/replays");
            fs::create_dir_all(&dir).unwrap();
            let path = dir.join(format!("{}-miri-s{}-seed{}.json", prop, sc, bad_seed));
            let first = out.lines().find(|l| l.contains("Undefined Behavior") || l.contains("STALE")).unwrap_or("Miri run failed").to_string();
            fs::write(&path, serde_json::to_vec_pretty(&json!({"property": prop, "engine": "miri", "scenario": sc, "miri_seed": bad_seed, "message": first})).unwrap()).unwrap();
            res.violations.push((path.to_string_lossy().to_string(), format!("Miri, waker scenario {} seed {}: {}", sc, bad_seed, first.trim())));
        }
    }
    res.samples.push(json!({"miri": "scenario 3: 3 worker threads, each writes a plain cell then wake()s its own waker twice; handlers on the main thread read the cells; main answers poll-wakes only"}));
    res
}

fn run_fuzz(prop: &str, idx: usize, target: &str, runs: u64, deadline: Instant) -> LegResult {
    let mut res = LegResult::new();
    // build (offline)
    let b = Command::new("cargo")
        .args(["+nightly", "fuzz", "build", "--target-dir", "/verif/build/fuzz", target])
        .current_dir(Path::new(VERIF).join("harness/vfuzz"))
        .env("CARGO_NET_OFFLINE", "true")
        .output();
    match b {
        Ok(o) if o.status.success() => {}
        Ok(o) => {
            res.inconclusive.push(format!("cargo fuzz build failed: {}", String::from_utf8_lossy(&o.stderr).lines().rev().take(3).collect::<Vec<_>>().join(" | ")));
            return res;
        }
        Err(e) => {
            res.inconclusive.push(format!("cannot run cargo fuzz: {}", e));
            return res;
        }
    }
    let exe = Path::new(VERIF).join(format!("build/fuzz/x86_64-unknown-linux-gnu/release/{}", target));
    let work = Path::new(VERIF).join(format!("build/work/{}-{}", prop, idx));
    let _ = fs::remove_dir_all(&work);
    let nproc = 8;
    let engine = match target {
        "prog" => "vm",
        "timers" => "timers",
        _ => "queues",
    };
    let mut kids = Vec::new();
    for w in 0..nproc {
        let d = work.join(format!("p{}", w));
        let corpus = d.join("corpus");
        fs::create_dir_all(&corpus).unwrap();
        fs::create_dir_all(d.join("artifacts")).unwrap();
        if let Ok(rd) = fs::read_dir(Path::new(VERIF).join(format!("harness/vfuzz/seeds/{}", target))) {
            for e in rd.flatten() {
                let _ = fs::copy(e.path(), corpus.join(e.file_name()));
            }
        }
        let child = Command::new(&exe)
            .arg(&corpus)
            .args([
                format!("-runs={}", runs),
                format!("-seed={}", crate::seed().wrapping_mul(131).wrapping_add(w as u64 + 1) % 4_000_000_000),
                "-len_control=0".to_string(),
                "-max_len=500".to_string(),
                format!("-artifact_prefix={}/", d.join("artifacts").display()),
                "-print_final_stats=1".to_string(),
            ])
            .env("VERIF_FUZZ_PROP", prop)
            .env("VERIF_FUZZ_STATS", d.join("stats.json"))
            .stdout(std::process::Stdio::null())
            .stderr(fs::File::create(d.join("log.txt")).unwrap())
            .spawn()
            .expect("fuzz target");
        kids.push((d, child));
    }
    let mut cov = 0u64;
    for (d, mut child) in kids {
        let st = loop {
            match child.try_wait().unwrap() {
                Some(st) => break Some(st),
                None => {
                    if Instant::now() > deadline {
                        let _ = child.kill();
                        let _ = child.wait();
                        break None;
                    }
                    std::thread::sleep(std::time::Duration::from_millis(100));
                }
            }
        };
        if let Ok(b) = fs::read(d.join("stats.json")) {
            if let Ok(v) = serde_json::from_slice::<Value>(&b) {
                res.evaluations += v["evaluations"].as_u64().unwrap_or(0);
                let n = v["distinct_nontrivial"].as_u64().unwrap_or(0);
                let base = res.nt.len() as u64;
                for k in 0..n {
                    // distinct within a process (hash set in the target); processes use different seeds
                    res.nt.insert(0xF022_0000_0000_0000 ^ ((d.display().to_string().len() as u64) << 40) ^ (base + k));
                }
                if let Some(m) = v["classes"].as_object() {
                    for (k, x) in m {
                        *res.classes.entry(format!("fuzz:{}", k)).or_insert(0) += x.as_u64().unwrap_or(0);
                    }
                }
            }
        }
        let log = fs::read_to_string(d.join("log.txt")).unwrap_or_default();
        if let Some(l) = log.lines().rev().find(|l| l.contains("cov:")) {
            if let Some(c) = l.split("cov:").nth(1).and_then(|x| x.split_whitespace().next()).and_then(|x| x.parse::<u64>().ok()) {
                cov = cov.max(c);
            }
        }
        match st {
            None => res.inconclusive.push("fuzz process exceeded the watchdog".into()),
            Some(s) if s.success() => {}
            Some(s) => {
                // a saved crashing input: confirm through the ordinary (non-ASan) replay path first
                let arts: Vec<_> = fs::read_dir(d.join("artifacts")).map(|r| r.flatten().map(|e| e.path()).collect()).unwrap_or_default();
                let first = log.lines().find(|l| l.contains("VIOLATION-IN-TARGET") || l.contains("ERROR: AddressSanitizer") || l.contains("panicked")).unwrap_or("fuzz target died").to_string();
                let dir = Path::new(VERIF).join("evidence/replays");
                fs::create_dir_all(&dir).unwrap();
                if let Some(a) = arts.first() {
                    let bytes = fs::read(a).unwrap_or_default();
                    let keep = dir.join(format!("{}-fuzz-{:016x}.bin", prop, vcore::fnv(&bytes)));
                    let _ = fs::copy(a, &keep);
                    let rp = dir.join(format!("{}-fuzz-{:016x}.json", prop, vcore::fnv(&bytes)));
                    let semantic = first.contains("VIOLATION-IN-TARGET");
                    let body = if semantic {
                        json!({"property": prop, "engine": engine, "focus": prop, "size": if target == "prog" { 0 } else { 1 }, "bytes": crate::hex(&bytes), "message": first})
                    } else {
                        json!({"property": prop, "engine": "fuzz-artifact", "target": target, "artifact": keep.strip_prefix(VERIF).unwrap_or(&keep).to_string_lossy(), "message": first})
                    };
                    fs::write(&rp, serde_json::to_vec_pretty(&body).unwrap()).unwrap();
                    res.violations.push((rp.to_string_lossy().to_string(), format!("libFuzzer/ASan ({:?}): {}", s, first.trim())));
                } else {
                    res.inconclusive.push(format!("fuzz process failed without an artifact: {:?} {}", s, first));
                }
            }
        }
    }
    res.extra.insert(format!("libfuzzer_coverage_{}", target), json!(cov));
    res
}
