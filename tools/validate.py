#!/usr/bin/env python3
import json, sys, glob, jsonschema
ms = json.load(open("/root/.vp/MANIFEST.schema.json"))
es = json.load(open("/root/.vp/EVIDENCE.schema.json"))
m = json.load(open("/verif/MANIFEST.json"))
jsonschema.validate(m, ms)
ok = True
for c in m["checks"]:
    f = c["evidence_file"]
    try:
        e = json.load(open(f))
        jsonschema.validate(e, es)
        print("ok", f, e["coverage"]["evaluations"], e["coverage"]["distinct_nontrivial"], e["wall_s"])
    except Exception as x:
        ok = False
        print("BAD", f, str(x)[:300])
print("manifest valid; evidence", "ok" if ok else "PROBLEMS")
