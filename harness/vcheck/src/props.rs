//! Property table: which engines (legs) decide each property, with what
//! budgets, and the always-run replay set of committed findings.

use crate::{run_pbt_leg, LegResult, VERIF};
use serde_json::{json, Value};
use std::fs;
use std::path::Path;
use std::process::Command;
use std::time::Instant;

pub enum Leg {
    /// proptest over byte strings decoded by a vcore engine
    Pbt {
        engine: &'static str,
        focus: &'static str,
        quick: u32,
        thorough: u32,
        len_q: (usize, usize),
        len_t: (usize, usize),
    },
}

pub struct PropSpec {
    pub id: &'static str,
    pub legs: Vec<Leg>,
    pub rule: &'static str,
    pub assumptions: Vec<&'static str>,
}

const A_TIMERS: &[&str] = &[
    "virtual time is owned by the harness: Instant::now() is read once per process as an opaque epoch, every instant is epoch + generated offset",
    "timer keys are only used on the Stakker that issued them; histories span at most about 10 days of virtual time",
    "timer callbacks and main-queue items do not re-enter run(); generated operations inside callbacks are one level deep",
    "trusted: rustc/std, proptest RNG and shrinker, the harness deadline model (bounds are the property's own +-1 step, quantisation is not replicated)",
];

pub fn is_pbt_engine(e: &str) -> bool {
    matches!(e, "timers" | "scenario")
}

fn timers_leg(focus: &'static str, quick: u32, thorough: u32) -> Leg {
    Leg::Pbt {
        engine: "timers",
        focus,
        quick,
        thorough,
        len_q: (0, 400),
        len_t: (0, 1200),
    }
}

pub fn all() -> Vec<PropSpec> {
    vec![
        PropSpec {
            id: "C07",
            legs: vec![timers_leg("C07", 2_000_000, 60_000_000)],
            rule: "cases are byte strings decoded into timer histories (add/after/max/min add, upd, del, active, run, next_* from top level, main-queue items and timer callbacks); non-trivial = history contains a successful update of a Min/Max timer, or an expiry within 2 resolution steps of a run instant or of the creation time, or a run jumping >= 32767 s with a timer pending; distinct = distinct byte strings (FNV-1a hash)",
            assumptions: A_TIMERS.to_vec(),
        },
        PropSpec {
            id: "C08",
            legs: vec![timers_leg("C08", 2_000_000, 60_000_000)],
            rule: "timer histories weighted towards Min/Max updates and large jumps; non-trivial = a Min/Max timer was successfully updated to an instant at/before the current time, or (updated at a sub-tick offset and beyond 9 h), or a single run spanned >= 2 re-queue periods (65534 s) with timers pending; distinct = distinct byte strings",
            assumptions: A_TIMERS.to_vec(),
        },
        PropSpec {
            id: "C09",
            legs: vec![timers_leg("C09", 2_000_000, 60_000_000)],
            rule: "timer histories with next_expiry() checked after every operation and next_wait/next_wait_max with generated now/maxdur/pending; every history ends with the drain loop `while let Some(e) = next_expiry() { run(e) }` under an iteration budget; non-trivial = the earliest deadline belonged to an updated Min/Max timer at some check, or a delete removed the earliest deadline, or the set mixed >= 2 timer kinds; distinct = distinct byte strings",
            assumptions: A_TIMERS.to_vec(),
        },
        PropSpec {
            id: "C10",
            legs: vec![timers_leg("C10", 2_000_000, 60_000_000)],
            rule: "timer histories where any key ever issued (and the Default key of each kind) may be used at any time; non-trivial = a key was used after its timer fired/was deleted and after >= 2 slots had been freed and another timer created since, or a Default key was used while a timer was pending; distinct = distinct byte strings",
            assumptions: A_TIMERS.to_vec(),
        },
        PropSpec {
            id: "C19",
            legs: vec![timers_leg("C19", 2_000_000, 60_000_000)],
            rule: "timer histories weighted towards bursts of fixed timers (timer_add/after) sharing or nearly sharing instants, expired by single runs; non-trivial = some run fired >= 3 short fixed timers with >= 2 deadlines >= 2 steps apart and >= 2 given the identical instant; distinct = distinct byte strings",
            assumptions: A_TIMERS.to_vec(),
        },
    ]
}

pub fn describe_leg(leg: &Leg, thorough: bool) -> Value {
    match leg {
        Leg::Pbt {
            engine,
            focus,
            quick,
            thorough: th,
            len_q,
            len_t,
        } => json!({
            "kind": "proptest over byte strings, sharded over worker processes",
            "engine": engine,
            "focus": focus,
            "cases_requested": if thorough { *th } else { *quick },
            "byte_length_range": if thorough { [len_t.0, len_t.1] } else { [len_q.0, len_q.1] },
        }),
    }
}

pub fn run_leg(prop: &str, idx: usize, leg: &Leg, thorough: bool, deadline: Instant) -> LegResult {
    match leg {
        Leg::Pbt {
            engine,
            focus,
            quick,
            thorough: th,
            len_q,
            len_t,
        } => run_pbt_leg(
            prop,
            idx,
            engine,
            focus,
            if thorough { 1 } else { 0 },
            if thorough { *th } else { *quick },
            if thorough { *len_t } else { *len_q },
            deadline,
        ),
    }
}

/// Run the committed replay files of findings recorded for this property.
/// Returns (KNOWN-FINDING lines, violations from fixed findings that returned, number run)
pub fn run_findings(prop: &str) -> (Vec<String>, Vec<(String, String)>, usize) {
    let path = Path::new(VERIF).join("known_findings.json");
    let mut known = Vec::new();
    let mut viol = Vec::new();
    let mut n = 0;
    let v: Value = match fs::read(&path) {
        Ok(b) => serde_json::from_slice(&b).expect("known_findings.json"),
        Err(_) => return (known, viol, 0),
    };
    let exe = std::env::current_exe().unwrap();
    for e in v["findings"].as_array().cloned().unwrap_or_default() {
        let props: Vec<String> = match e["property"].as_array() {
            Some(a) => a.iter().map(|x| x.as_str().unwrap().to_string()).collect(),
            None => vec![e["property"].as_str().unwrap_or("").to_string()],
        };
        if !props.iter().any(|p| p == prop) {
            continue;
        }
        let replay = Path::new(VERIF).join(e["replay"].as_str().unwrap());
        n += 1;
        // Replay files name one property; run it for this property
        let out = Command::new(&exe)
            .args(["replay", replay.to_str().unwrap()])
            .env("VERIF_REPLAY_PROP", prop)
            .output()
            .expect("replay");
        let text = String::from_utf8_lossy(&out.stdout).to_string();
        let violates = out.status.code() == Some(1) || out.status.code().is_none();
        let status = e["status"].as_str().unwrap_or("");
        let rule = e["rule"].as_str().unwrap_or("");
        if status == "fixed" {
            if violates {
                viol.push((
                    replay.to_string_lossy().to_string(),
                    format!(
                        "finding recorded as fixed has returned: {}",
                        e["what"].as_str().unwrap_or("")
                    ),
                ));
            }
        } else if status == "known" {
            if violates {
                if rule.is_empty() || text.contains(&format!("[{}]", rule)) {
                    known.push(format!(
                        "KNOWN-FINDING: property={} {} ({})",
                        prop,
                        e["signature"].as_str().unwrap_or(""),
                        e["what"].as_str().unwrap_or("")
                    ));
                } else {
                    viol.push((
                        replay.to_string_lossy().to_string(),
                        format!(
                            "known-finding replay fails in a different way than recorded: {}",
                            text.lines().next().unwrap_or("")
                        ),
                    ));
                }
            }
        }
    }
    (known, viol, n)
}

pub fn replay_special(_engine: &str, _v: &Value, _path: &Path, _verbose: bool) -> i32 {
    eprintln!("no special replay for this engine yet");
    2
}
