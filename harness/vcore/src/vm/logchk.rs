//! C20: with the logger feature, each actor has exactly one Open and one Close
//! record.  Compiled in every configuration; the parts that touch the logging
//! API are active only when the `logger` feature is on.

use super::exec::hx;
use super::monitor::{ActorId, Cause};
use stakker::Stakker;

#[derive(Clone, Debug, Default)]
pub struct Rec {
    pub id: u64,
    pub level: u32,
    pub text: String,
    pub keys: Vec<(String, Option<u64>)>,
}

#[derive(Default)]
pub struct LogState {
    pub on: bool,
    pub recs: Vec<Rec>,
    /// reference reading of the installed filter, indexed by LogLevel as u32 (0..=8)
    pub allowed: [bool; 9],
    pub ids: Vec<u64>,
    pub open_expected: Vec<bool>,
    pub spec_idx: usize,
    pub change_after_run: u32,
    pub blocked_records: u32,
    pub causes: [bool; 4],
    pub child_with_parent: bool,
}

/// Filter specifications: (how it is built, the levels named)
const SPECS: &[(&str, &[u32])] = &[
    ("str:open,info", &[6, 2]),
    ("all:Open", &[6]),
    ("all:Trace,Audit,Close", &[0, 5, 7]),
    ("new", &[]),
    ("or:Error|Audit", &[4, 5]),
    ("str:warn,audit,open", &[3, 5, 6]),
    ("all:Debug", &[1]),
    ("str:off", &[8]),
    ("str:close,error", &[7, 4]),
];

/// Reference reading of LogFilter: a severity level enables itself and everything above up to
/// Error, Audit stands alone, Open and Close always come together, Off enables nothing
pub fn reference_allowed(levels: &[u32]) -> [bool; 9] {
    let mut a = [false; 9];
    for l in levels {
        match *l {
            0..=4 => {
                for x in *l..=4 {
                    a[x as usize] = true;
                }
            }
            5 => a[5] = true,
            6 | 7 => {
                a[6] = true;
                a[7] = true;
            }
            _ => {}
        }
    }
    a
}

#[cfg(feature = "logger")]
mod imp {
    use super::*;
    use stakker::{LogFilter, LogLevel, LogRecord, LogVisitor};
    use std::fmt::Arguments;
    use std::str::FromStr;

    struct V<'a>(&'a mut Vec<(String, Option<u64>)>);
    impl<'a> LogVisitor for V<'a> {
        fn kv_u64(&mut self, key: Option<&str>, val: u64) {
            self.0.push((key.unwrap_or("").to_string(), Some(val)));
        }
        fn kv_i64(&mut self, key: Option<&str>, _val: i64) {
            self.0.push((key.unwrap_or("").to_string(), None));
        }
        fn kv_f64(&mut self, key: Option<&str>, _val: f64) {
            self.0.push((key.unwrap_or("").to_string(), None));
        }
        fn kv_bool(&mut self, key: Option<&str>, _val: bool) {
            self.0.push((key.unwrap_or("").to_string(), None));
        }
        fn kv_null(&mut self, key: Option<&str>) {
            self.0.push((key.unwrap_or("").to_string(), None));
        }
        fn kv_str(&mut self, key: Option<&str>, _val: &str) {
            self.0.push((key.unwrap_or("").to_string(), None));
        }
        fn kv_fmt(&mut self, key: Option<&str>, _val: &Arguments<'_>) {
            self.0.push((key.unwrap_or("").to_string(), None));
        }
        fn kv_map(&mut self, _key: Option<&str>) {}
        fn kv_mapend(&mut self, _key: Option<&str>) {}
        fn kv_arr(&mut self, _key: Option<&str>) {}
        fn kv_arrend(&mut self, _key: Option<&str>) {}
    }

    fn level(l: u32) -> LogLevel {
        match l {
            0 => LogLevel::Trace,
            1 => LogLevel::Debug,
            2 => LogLevel::Info,
            3 => LogLevel::Warn,
            4 => LogLevel::Error,
            5 => LogLevel::Audit,
            6 => LogLevel::Open,
            7 => LogLevel::Close,
            _ => LogLevel::Off,
        }
    }

    fn build(idx: usize) -> LogFilter {
        let (how, levels) = SPECS[idx % SPECS.len()];
        if let Some(s) = how.strip_prefix("str:") {
            LogFilter::from_str(s).expect("filter string")
        } else if how.starts_with("or:") {
            let mut f = LogFilter::new();
            for l in levels {
                f = f | LogFilter::from(level(*l));
            }
            f
        } else {
            let v: Vec<LogLevel> = levels.iter().map(|l| level(*l)).collect();
            LogFilter::all(&v)
        }
    }

    pub fn install(s: &mut Stakker, seed: u64) {
        let idx = (seed % SPECS.len() as u64) as usize;
        hx(|h| {
            h.logs.on = true;
            h.logs.spec_idx = idx;
            h.logs.allowed = reference_allowed(SPECS[idx].1);
            h.logs.change_after_run = 1 + ((seed >> 8) % 5) as u32;
        });
        let nested = (seed >> 20) & 1 == 1;
        s.set_logger(build(idx), move |core, r: &LogRecord<'_>| {
            // A logger may use Core (it gets a &mut Core): some cases allocate a span of their own
            // while an Open record is being delivered (e.g. a logger that lazily sets up a writer).
            // Its own records are dropped by design (the logger is taken while it runs).
            if nested && r.level == LogLevel::Open {
                let id2 = core.log_span_open("harness-nested", 0, |_| {});
                core.log_span_close(id2, format_args!(""), |_| {});
            }
            let mut keys = Vec::new();
            (r.kvscan)(&mut V(&mut keys));
            let rec = Rec {
                id: r.id,
                level: r.level as u32,
                text: format!("{}", r.fmt),
                keys,
            };
            hx(|h| h.logs.recs.push(rec));
        });
    }

    pub fn after_run(s: &mut Stakker, run_no: u32) {
        let change = hx(|h| h.logs.on && h.logs.change_after_run == run_no);
        if change {
            let idx = hx(|h| (h.logs.spec_idx + 1 + (h.hash % 7) as usize) % SPECS.len());
            s.set_log_filter(build(idx));
            hx(|h| {
                h.logs.spec_idx = idx;
                h.logs.allowed = reference_allowed(SPECS[idx].1);
            });
        }
        if !hx(|h| h.logs.on) {
            return;
        }
        // records below the installed filter are never delivered, and log_check agrees
        for l in 0..=8u32 {
            let before = hx(|h| h.logs.recs.len());
            s.log(0, level(l), "probe", format_args!("probe {}", l), |_| {});
            let chk = s.log_check(level(l));
            hx(|h| {
                let delivered = h.logs.recs.len() - before;
                let want = h.logs.allowed[l as usize];
                if !want {
                    h.logs.blocked_records += 1;
                }
                if delivered != want as usize || chk != want {
                    let spec = SPECS[h.logs.spec_idx].0;
                    h.rep.viol(
                        &["C20"],
                        "filter",
                        format!(
                            "filter built as {}: a {:?} record was delivered {} time(s), log_check says {}, the reference reading of the filter says {}",
                            spec,
                            level(l),
                            delivered,
                            chk,
                            want
                        ),
                    );
                }
                h.logs.recs.truncate(before);
            });
        }
    }
}

#[cfg(not(feature = "logger"))]
mod imp {
    use super::*;
    pub fn install(_s: &mut Stakker, _seed: u64) {}
    pub fn after_run(_s: &mut Stakker, _run_no: u32) {}
}

pub use imp::{after_run, install};

/// Called right after an actor was created.  `id` is actor.id(), `parent` the creator's id (0 = none)
pub fn actor_created(aid: ActorId, id: u64, parent: u64) {
    hx(|h| {
        let l = &mut h.logs;
        while l.ids.len() <= aid as usize {
            l.ids.push(0);
            l.open_expected.push(false);
        }
        l.ids[aid as usize] = id;
        if !l.on {
            return;
        }
        let want = l.allowed[6];
        l.open_expected[aid as usize] = want;
        if parent != 0 {
            l.child_with_parent = true;
        }
        let opens: Vec<Rec> = l.recs.iter().filter(|r| r.level == 6 && r.id == id).cloned().collect();
        let dup = l.ids[..aid as usize].iter().any(|x| *x == id);
        let msg = if id == 0 {
            Some(format!("actor a{} has LogID 0 with the logger feature on", aid))
        } else if dup {
            Some(format!("actor a{} got LogID {} which another actor already has", aid, id))
        } else if opens.len() != want as usize {
            Some(format!("creating actor a{} (LogID {}) produced {} Open record(s), expected {}", aid, id, opens.len(), want as usize))
        } else if let Some(r) = opens.first() {
            let p = r.keys.iter().find(|k| k.0 == "parent").and_then(|k| k.1).unwrap_or(0);
            if p != parent {
                Some(format!("Open record of actor a{} carries parent {} but its creator's id is {}", aid, p, parent))
            } else {
                None
            }
        } else {
            if !want {
                l.blocked_records += 1;
            }
            None
        };
        if let Some(m) = msg {
            h.rep.viol(&["C20"], "open-record", m);
        }
    });
}

/// Called from the notifier (the Close record is written just before the notification)
pub fn actor_notified(aid: ActorId, cause: Option<Cause>) {
    hx(|h| {
        let l = &mut h.logs;
        if !l.on || aid as usize >= l.ids.len() {
            return;
        }
        let id = l.ids[aid as usize];
        let closes: Vec<Rec> = l.recs.iter().filter(|r| r.level == 7 && r.id == id).cloned().collect();
        let want = cause.is_some() && l.allowed[7];
        if cause.is_some() && !l.allowed[7] {
            l.blocked_records += 1;
        }
        match cause {
            Some(Cause::Stopped) => l.causes[0] = true,
            Some(Cause::Failed(_)) => l.causes[1] = true,
            Some(Cause::Killed(_)) => l.causes[2] = true,
            Some(Cause::Dropped) => l.causes[3] = true,
            None => {}
        }
        let msg = if closes.len() != want as usize {
            Some(format!(
                "termination of actor a{} (LogID {}, cause {:?}) has {} Close record(s), expected {}",
                aid,
                id,
                cause,
                closes.len(),
                want as usize
            ))
        } else if let (Some(r), Some(c)) = (closes.first(), cause) {
            let has = |k: &str| r.keys.iter().any(|x| x.0 == k);
            let (marker, text): (&str, Option<String>) = match c {
                Cause::Stopped => ("", None),
                Cause::Failed(t) => ("failed", Some(tag_text(t))),
                Cause::Killed(t) => ("killed", Some(tag_text(t))),
                Cause::Dropped => ("dropped", None),
            };
            let markers_ok = ["failed", "killed", "dropped", "lost"].iter().all(|m| has(m) == (*m == marker));
            if !markers_ok {
                Some(format!(
                    "Close record of actor a{} has keys {:?} but the notifier received {:?}",
                    aid,
                    r.keys.iter().map(|k| k.0.clone()).collect::<Vec<_>>(),
                    c
                ))
            } else if text.as_ref().map(|t| *t != r.text).unwrap_or(false) {
                Some(format!("Close record of actor a{} says {:?} but the error delivered is {:?}", aid, r.text, text.unwrap()))
            } else {
                None
            }
        } else {
            None
        };
        if let Some(m) = msg {
            h.rep.viol(&["C20"], "close-record", m);
        }
    });
}

fn tag_text(t: u32) -> String {
    match t {
        0..=99 => format!("lit{}", t),
        100..=199 => format!("fmt{}", t - 100),
        _ => format!("tagerr{}", t - 200),
    }
}

pub fn final_check() {
    hx(|h| {
        let l = &h.logs;
        if !l.on {
            return;
        }
        let mut msg = None;
        for (aid, id) in l.ids.iter().enumerate() {
            let opens = l.recs.iter().filter(|r| r.level == 6 && r.id == *id).count();
            let closes = l.recs.iter().filter(|r| r.level == 7 && r.id == *id).count();
            if opens != l.open_expected[aid] as usize {
                msg = Some(format!("actor a{} (LogID {}) ends with {} Open records, expected {}", aid, id, opens, l.open_expected[aid] as usize));
            }
            if closes > 1 {
                msg = Some(format!("actor a{} (LogID {}) ends with {} Close records", aid, id, closes));
            }
        }
        let nt = l.ids.len() >= 3 && l.causes.iter().filter(|c| **c).count() >= 2 && l.child_with_parent && l.blocked_records > 0;
        if let Some(m) = msg {
            h.rep.viol(&["C20"], "record-count", m);
        }
        if nt {
            h.rep.nt("C20");
        }
        if l.child_with_parent {
            h.rep.class("logger:child-with-parent-id");
        }
    });
}
