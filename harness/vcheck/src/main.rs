//! Driver: `vcheck run <PROP> --tier quick|thorough`, `vcheck replay <file>`,
//! and the internal `vcheck worker ...` used for sharding cases over processes
//! (default-feature stakker allows one Stakker per process thread).

mod matrix;
mod props;

use proptest::prelude::*;
use proptest::test_runner::{Config, RngSeed, TestCaseError, TestError, TestRunner};
use serde_json::{json, Value};
use std::cell::RefCell;
use std::collections::{BTreeMap, HashSet};
use std::fs;
use std::io::{Seek, SeekFrom, Write};
use std::path::{Path, PathBuf};
use std::process::{Command, Stdio};
use std::time::{Duration, Instant};
use vcore::{run_engine, Opts};

pub const VERIF: &str = "/verif";

pub fn hex(b: &[u8]) -> String {
    let mut s = String::with_capacity(b.len() * 2);
    for x in b {
        s.push_str(&format!("{:02x}", x));
    }
    s
}

pub fn unhex(s: &str) -> Vec<u8> {
    // first line only: the in-flight file is overwritten in place
    let s = s.lines().next().unwrap_or("").trim();
    (0..s.len() / 2)
        .map(|i| u8::from_str_radix(&s[2 * i..2 * i + 2], 16).unwrap())
        .collect()
}

pub fn seed() -> u64 {
    std::env::var("VERIF_SEED")
        .ok()
        .and_then(|s| s.parse::<u64>().ok())
        .unwrap_or(1)
}

fn main() {
    let args: Vec<String> = std::env::args().collect();
    if args.len() < 2 {
        eprintln!("usage: vcheck run <PROP> [--tier quick|thorough] | replay <file> | list");
        std::process::exit(2);
    }
    let code = match args[1].as_str() {
        "run" => {
            let prop = args.get(2).expect("property id").clone();
            let mut tier = std::env::var("VERIF_TIER").unwrap_or_else(|_| "quick".into());
            let mut i = 3;
            while i < args.len() {
                if args[i] == "--tier" {
                    tier = args[i + 1].clone();
                    i += 1;
                }
                i += 1;
            }
            run_check(&prop, &tier)
        }
        "worker" => worker(&args[2..]),
        "sweep" => props::sweep_worker(&args[2..]),
        "matrix-worker" => matrix::worker(&args[2..]),
        "replay" => replay_file(Path::new(&args[2]), true),
        "replay-bytes" => replay_bytes(&args[2..]),
        "list" => {
            for p in props::all() {
                println!("{}", p.id);
            }
            0
        }
        _ => {
            eprintln!("unknown command");
            2
        }
    };
    std::process::exit(code);
}

// ---------------------------------------------------------------------------
// Worker: one proptest runner over Vec<u8>

struct WState {
    evals: u64,
    ops: u64,
    nt: HashSet<u64>,
    classes: BTreeMap<String, u64>,
    excluded: BTreeMap<String, u64>,
    other_viol: BTreeMap<String, u64>,
    samples: Vec<Value>,
    failed: bool,
    fail_rule: String,
    inflight: fs::File,
}

fn worker(a: &[String]) -> i32 {
    // engine prop focus size seed cases lenlo lenhi outdir widx
    let engine = a[0].clone();
    let prop = a[1].clone();
    let focus = a[2].clone();
    let size: u32 = a[3].parse().unwrap();
    let wseed: u64 = a[4].parse().unwrap();
    let cases: u32 = a[5].parse().unwrap();
    let lenlo: usize = a[6].parse().unwrap();
    let lenhi: usize = a[7].parse().unwrap();
    let outdir = PathBuf::from(&a[8]);
    let widx: u32 = a[9].parse().unwrap();

    let opts = Opts {
        trace: false,
        focus: focus.clone(),
        size,
        strict: false,
        matrix: false,
    };
    let st = RefCell::new(WState {
        evals: 0,
        ops: 0,
        nt: HashSet::new(),
        classes: BTreeMap::new(),
        excluded: BTreeMap::new(),
        other_viol: BTreeMap::new(),
        samples: Vec::new(),
        failed: false,
        fail_rule: String::new(),
        inflight: fs::File::create(outdir.join(format!("w{}.inflight", widx))).unwrap(),
    });
    let mut runner = TestRunner::new(Config {
        cases,
        rng_seed: RngSeed::Fixed(wseed),
        failure_persistence: None,
        max_shrink_iters: 30000,
        ..Config::default()
    });
    let strat = proptest::collection::vec(any::<u8>(), lenlo..lenhi);
    // One warm-up case so that lazily initialised process singletons exist
    let _ = run_engine(&engine, &[], &opts);
    let result = runner.run(&strat, |bytes| {
        {
            let mut s = st.borrow_mut();
            if !s.failed {
                let _ = s.inflight.seek(SeekFrom::Start(0));
                let _ = s.inflight.write_all(hex(&bytes).as_bytes());
                let _ = s.inflight.write_all(b"\n");
            }
        }
        let rep = run_engine(&engine, &bytes, &opts);
        let mut s = st.borrow_mut();
        if !s.failed {
            s.evals += 1;
            s.ops += rep.ops;
            for c in &rep.classes {
                *s.classes.entry(c.to_string()).or_insert(0) += 1;
            }
            for c in &rep.excluded {
                *s.excluded.entry(c.to_string()).or_insert(0) += 1;
            }
            if rep.nontrivial.iter().any(|p| *p == prop) {
                let h = vcore::fnv(&bytes);
                if s.nt.insert(h) && s.samples.len() < 2 && bytes.len() < 400 {
                    let mut o2 = opts.clone();
                    o2.trace = true;
                    drop(s);
                    let r2 = run_engine(&engine, &bytes, &o2);
                    s = st.borrow_mut();
                    let mut tr = r2.trace;
                    if tr.len() > 60 {
                        tr.truncate(60);
                        tr.push("...".into());
                    }
                    s.samples.push(json!({"bytes": hex(&bytes), "case": tr}));
                }
            }
        }
        if let Some(v) = rep.violates(&prop) {
            if !s.failed {
                s.failed = true;
                s.fail_rule = v.rule.to_string();
            }
            // While shrinking, stay on the same rule so the minimal case shows the same failure
            if v.rule == s.fail_rule {
                return Err(TestCaseError::fail(format!("[{}] {}", v.rule, v.msg)));
            }
            return Ok(());
        }
        if !s.failed {
            for v in &rep.violations {
                *s.other_viol
                    .entry(format!("{}:{}", v.props.join("+"), v.rule))
                    .or_insert(0) += 1;
            }
        }
        Ok(())
    });
    let mut s = st.into_inner();
    let mut out = json!({
        "widx": widx,
        "evaluations": s.evals,
        "ops": s.ops,
        "classes": s.classes,
        "excluded": s.excluded,
        "other_property_violations": s.other_viol,
        "samples": s.samples,
    });
    let mut nt: Vec<u64> = s.nt.drain().collect();
    nt.sort();
    let mut ntb = Vec::with_capacity(nt.len() * 8);
    for h in &nt {
        ntb.extend_from_slice(&h.to_le_bytes());
    }
    fs::write(outdir.join(format!("w{}.nt", widx)), ntb).unwrap();
    let mut code = 0;
    match result {
        Ok(()) => {}
        Err(TestError::Fail(reason, bytes)) => {
            let path = write_replay(&prop, &engine, &focus, size, &bytes, wseed, &reason.to_string());
            out["violation"] = json!({"replay": path, "message": reason.to_string()});
            code = 1;
        }
        Err(TestError::Abort(reason)) => {
            out["abort"] = json!(reason.to_string());
            code = 2;
        }
    }
    fs::write(
        outdir.join(format!("w{}.json", widx)),
        serde_json::to_vec_pretty(&out).unwrap(),
    )
    .unwrap();
    let _ = fs::remove_file(outdir.join(format!("w{}.inflight", widx)));
    code
}

fn write_replay(
    prop: &str,
    engine: &str,
    focus: &str,
    size: u32,
    bytes: &[u8],
    wseed: u64,
    msg: &str,
) -> String {
    let dir = Path::new(VERIF).join("evidence/replays");
    fs::create_dir_all(&dir).unwrap();
    let mut o = Opts {
        trace: true,
        focus: focus.to_string(),
        size,
        strict: false,
        matrix: false,
    };
    o.trace = true;
    let rep = run_engine(engine, bytes, &o);
    let path = dir.join(format!("{}-{:016x}.json", prop, vcore::fnv(bytes)));
    let v = json!({
        "property": prop,
        "engine": engine,
        "focus": focus,
        "size": size,
        "bytes": hex(bytes),
        "seed": wseed,
        "message": msg,
        "case": rep.trace,
    });
    fs::write(&path, serde_json::to_vec_pretty(&v).unwrap()).unwrap();
    path.to_string_lossy().to_string()
}

// ---------------------------------------------------------------------------
// Replay

/// Returns 1 (and prints a VIOLATION line) if the case violates its property
fn replay_file(path: &Path, verbose: bool) -> i32 {
    let v: Value = serde_json::from_slice(&fs::read(path).expect("replay file")).expect("json");
    if v["crash"].as_bool() == Some(true) && std::env::var("VERIF_NO_ISOLATE").is_err() {
        // the case is known to kill the process: run it in a child
        let st = Command::new(std::env::current_exe().unwrap())
            .args(["replay", path.to_str().unwrap()])
            .env("VERIF_NO_ISOLATE", "1")
            .stderr(Stdio::null())
            .status()
            .unwrap();
        return match st.code() {
            Some(0) => 0,
            Some(1) => 1,
            other => {
                println!("  process died while executing this case ({:?})", other);
                println!(
                    "VIOLATION property={} replay={}",
                    v["property"].as_str().unwrap_or("?"),
                    path.display()
                );
                1
            }
        };
    }
    let prop = std::env::var("VERIF_REPLAY_PROP")
        .unwrap_or_else(|_| v["property"].as_str().unwrap().to_string());
    let engine = v["engine"].as_str().unwrap().to_string();
    if !props::is_pbt_engine(&engine) {
        return props::replay_special(&engine, &v, path, verbose);
    }
    let opts = Opts {
        trace: true,
        focus: v["focus"].as_str().unwrap_or("").to_string(),
        size: v["size"].as_u64().unwrap_or(0) as u32,
        strict: v["strict"].as_bool().unwrap_or(false),
        matrix: v["matrix"].as_bool().unwrap_or(false),
    };
    let bytes = match v.get("scenario").and_then(|x| x.as_str()) {
        Some(name) => name.as_bytes().to_vec(),
        None => unhex(v["bytes"].as_str().unwrap()),
    };
    let rep = run_engine(&engine, &bytes, &opts);
    if verbose {
        for l in &rep.trace {
            println!("{}", l);
        }
        for x in &rep.violations {
            println!("violation {:?} [{}] {}", x.props, x.rule, x.msg);
        }
    }
    if let Some(x) = rep.violates(&prop) {
        println!("  [{}] {}", x.rule, x.msg);
        println!("VIOLATION property={} replay={}", prop, path.display());
        1
    } else {
        if verbose {
            println!("replay: property {} holds on this case", prop);
        }
        0
    }
}

fn replay_bytes(a: &[String]) -> i32 {
    // engine prop focus size hexfile
    let opts = Opts {
        trace: false,
        focus: a[2].clone(),
        size: a[3].parse().unwrap(),
        strict: false,
        matrix: false,
    };
    let bytes = unhex(&fs::read_to_string(&a[4]).unwrap());
    let rep = run_engine(&a[0], &bytes, &opts);
    if rep.violates(&a[1]).is_some() {
        1
    } else {
        0
    }
}

// ---------------------------------------------------------------------------
// Parent

pub struct LegResult {
    pub evaluations: u64,
    pub ops: u64,
    pub nt: HashSet<u64>,
    pub classes: BTreeMap<String, u64>,
    pub excluded: BTreeMap<String, u64>,
    pub other: BTreeMap<String, u64>,
    pub samples: Vec<Value>,
    pub violations: Vec<(String, String)>, // (replay path, message)
    pub inconclusive: Vec<String>,
    pub extra: BTreeMap<String, Value>,
}

impl LegResult {
    pub fn new() -> Self {
        Self {
            evaluations: 0,
            ops: 0,
            nt: HashSet::new(),
            classes: BTreeMap::new(),
            excluded: BTreeMap::new(),
            other: BTreeMap::new(),
            samples: Vec::new(),
            violations: Vec::new(),
            inconclusive: Vec::new(),
            extra: BTreeMap::new(),
        }
    }
    pub fn merge(&mut self, o: LegResult) {
        self.evaluations += o.evaluations;
        self.ops += o.ops;
        self.nt.extend(o.nt);
        for (k, v) in o.classes {
            *self.classes.entry(k).or_insert(0) += v;
        }
        for (k, v) in o.excluded {
            *self.excluded.entry(k).or_insert(0) += v;
        }
        for (k, v) in o.other {
            *self.other.entry(k).or_insert(0) += v;
        }
        for s in o.samples {
            if self.samples.len() < 4 {
                self.samples.push(s);
            }
        }
        self.violations.extend(o.violations);
        self.inconclusive.extend(o.inconclusive);
        for (k, v) in o.extra {
            self.extra.insert(k, v);
        }
    }
}

fn add_map(dst: &mut BTreeMap<String, u64>, v: &Value) {
    if let Some(m) = v.as_object() {
        for (k, x) in m {
            *dst.entry(k.clone()).or_insert(0) += x.as_u64().unwrap_or(0);
        }
    }
}

pub fn nworkers() -> u32 {
    std::thread::available_parallelism()
        .map(|n| n.get() as u32)
        .unwrap_or(8)
        .min(16)
}

/// Run one PBT leg sharded over worker processes
pub fn run_pbt_leg(
    prop: &str,
    leg_idx: usize,
    engine: &str,
    focus: &str,
    size: u32,
    total_cases: u32,
    len: (usize, usize),
    deadline: Instant,
) -> LegResult {
    let nw = nworkers();
    let outdir = Path::new(VERIF).join(format!("build/work/{}-{}", prop, leg_idx));
    let _ = fs::remove_dir_all(&outdir);
    fs::create_dir_all(&outdir).unwrap();
    let exe = std::env::current_exe().unwrap();
    let base_seed = seed();
    let per = (total_cases + nw - 1) / nw;
    let mut kids = Vec::new();
    for w in 0..nw {
        let wseed = base_seed
            .wrapping_mul(1_000_003)
            .wrapping_add(w as u64 * 7919)
            .wrapping_add(leg_idx as u64 * 104_729);
        let child = Command::new(&exe)
            .args([
                "worker",
                engine,
                prop,
                focus,
                &size.to_string(),
                &wseed.to_string(),
                &per.to_string(),
                &len.0.to_string(),
                &len.1.to_string(),
                outdir.to_str().unwrap(),
                &w.to_string(),
            ])
            .stdout(Stdio::null())
            .stderr(fs::File::create(outdir.join(format!("w{}.stderr", w))).unwrap())
            .spawn()
            .expect("spawn worker");
        kids.push((w, child));
    }
    let mut res = LegResult::new();
    for (w, mut child) in kids {
        let status = loop {
            match child.try_wait().unwrap() {
                Some(st) => break Some(st),
                None => {
                    if Instant::now() > deadline {
                        let _ = child.kill();
                        let _ = child.wait();
                        break None;
                    }
                    std::thread::sleep(Duration::from_millis(20));
                }
            }
        };
        let jpath = outdir.join(format!("w{}.json", w));
        match status {
            None => res
                .inconclusive
                .push(format!("worker {} exceeded the watchdog and was stopped", w)),
            Some(st) => {
                if jpath.exists() {
                    let v: Value = serde_json::from_slice(&fs::read(&jpath).unwrap()).unwrap();
                    res.evaluations += v["evaluations"].as_u64().unwrap_or(0);
                    res.ops += v["ops"].as_u64().unwrap_or(0);
                    add_map(&mut res.classes, &v["classes"]);
                    add_map(&mut res.excluded, &v["excluded"]);
                    add_map(&mut res.other, &v["other_property_violations"]);
                    if let Some(a) = v["samples"].as_array() {
                        for s in a {
                            if res.samples.len() < 4 {
                                res.samples.push(s.clone());
                            }
                        }
                    }
                    if let Ok(b) = fs::read(outdir.join(format!("w{}.nt", w))) {
                        for ch in b.chunks_exact(8) {
                            res.nt.insert(u64::from_le_bytes(ch.try_into().unwrap()));
                        }
                    }
                    if let Some(x) = v.get("violation") {
                        res.violations.push((
                            x["replay"].as_str().unwrap().to_string(),
                            x["message"].as_str().unwrap().to_string(),
                        ));
                    }
                    if let Some(x) = v.get("abort") {
                        res.inconclusive.push(format!("worker {} aborted: {}", w, x));
                    }
                } else {
                    // Worker died without reporting: crash inside a case.  Re-run the
                    // in-flight case in a fresh process; a violation only if it reproduces.
                    let infl = outdir.join(format!("w{}.inflight", w));
                    let mut reproduced = false;
                    if infl.exists() {
                        let st2 = Command::new(&exe)
                            .args([
                                "replay-bytes",
                                engine,
                                prop,
                                focus,
                                &size.to_string(),
                                infl.to_str().unwrap(),
                            ])
                            .stdout(Stdio::null())
                            .stderr(Stdio::null())
                            .status()
                            .unwrap();
                        if !st2.success() && st2.code() != Some(0) {
                            reproduced = true;
                            let bytes = unhex(&fs::read_to_string(&infl).unwrap());
                            let dir = Path::new(VERIF).join("evidence/replays");
                            fs::create_dir_all(&dir).unwrap();
                            let path =
                                dir.join(format!("{}-crash-{:016x}.json", prop, vcore::fnv(&bytes)));
                            let msg = format!(
                                "process died while executing this case (status {:?}, again {:?})",
                                st, st2
                            );
                            fs::write(
                                &path,
                                serde_json::to_vec_pretty(&json!({
                                    "property": prop, "engine": engine, "focus": focus, "size": size,
                                    "bytes": hex(&bytes), "message": msg, "crash": true,
                                }))
                                .unwrap(),
                            )
                            .unwrap();
                            res.violations.push((path.to_string_lossy().to_string(), msg));
                        }
                    }
                    if !reproduced {
                        res.inconclusive.push(format!(
                            "worker {} died ({:?}) and the in-flight case did not reproduce",
                            w, st
                        ));
                    }
                }
            }
        }
    }
    res
}

fn run_check(prop: &str, tier: &str) -> i32 {
    let t0 = Instant::now();
    let spec = match props::all().into_iter().find(|p| p.id == prop) {
        Some(s) => s,
        None => {
            eprintln!("no check registered for {}", prop);
            return 2;
        }
    };
    let thorough = tier == "thorough";
    // replay files of earlier runs of this property are stale
    if let Ok(rd) = fs::read_dir(Path::new(VERIF).join("evidence/replays")) {
        for e in rd.flatten() {
            if e.file_name().to_string_lossy().starts_with(&format!("{}-", prop)) {
                let _ = fs::remove_file(e.path());
            }
        }
    }
    let deadline = t0 + Duration::from_secs(if thorough { 4 * 3600 } else { 1500 });
    let mut total = LegResult::new();
    let mut legs_desc = Vec::new();

    // Always-run replay set: committed findings for this property
    let (known_lines, fixed_viol, n_replays) = props::run_findings(prop);
    for l in &known_lines {
        println!("{}", l);
    }
    total.violations.extend(fixed_viol);

    for (i, leg) in spec.legs.iter().enumerate() {
        let r = props::run_leg(prop, i, leg, thorough, deadline);
        legs_desc.push(props::describe_leg(leg, thorough));
        total.merge(r);
    }

    let wall = t0.elapsed().as_secs_f64();
    let mut samples = total.samples.clone();
    if samples.is_empty() {
        samples.push(json!("no non-trivial sample recorded"));
    }
    let ev = json!({
        "property_id": prop,
        "tier": if thorough { "thorough" } else { "quick" },
        "seed": seed(),
        "level": "exploration",
        "coverage": {
            "evaluations": total.evaluations,
            "distinct_nontrivial": total.nt.len(),
            "rule": spec.rule,
            "samples": samples,
            "operations_executed": total.ops,
            "case_classes": total.classes,
            "excluded_by_known_finding": total.excluded,
            "violations_of_other_properties_seen": total.other,
            "legs": legs_desc,
            "finding_replays_run": n_replays,
            "known_findings_reported": known_lines,
            "inconclusive": total.inconclusive,
            "extra": total.extra,
            "exhaustive": false,
        },
        "assumptions": spec.assumptions,
        "wall_s": wall,
        "violations": total.violations.len(),
    });
    let evdir = Path::new(VERIF).join("evidence");
    fs::create_dir_all(&evdir).unwrap();
    fs::write(
        evdir.join(format!("{}.json", prop)),
        serde_json::to_vec_pretty(&ev).unwrap(),
    )
    .unwrap();
    println!(
        "{} {}: {} cases, {} distinct non-trivial, {} violations, {:.1}s",
        prop,
        tier,
        total.evaluations,
        total.nt.len(),
        total.violations.len(),
        wall
    );
    if !total.violations.is_empty() {
        for (path, msg) in &total.violations {
            println!("  {}", msg);
            println!("VIOLATION property={} replay={}", prop, path);
        }
        return 1;
    }
    if total.nt.len() < spec.min_nontrivial {
        total.inconclusive.push(format!(
            "only {} distinct non-trivial cases were explored (minimum {}): the run cannot vouch for the property",
            total.nt.len(),
            spec.min_nontrivial
        ));
    }
    if !total.inconclusive.is_empty() {
        for m in &total.inconclusive {
            println!("INCONCLUSIVE: {}", m);
        }
        return 2;
    }
    0
}
