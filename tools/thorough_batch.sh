#!/bin/bash
# Run a list of thorough checks one after the other (background use via `vp run`)
cd /verif
for p in "$@"; do
  /usr/bin/time -f "$p wall %es" ./check $p --tier thorough 2>&1 | tail -4 | cut -c1-300
done
