//! E4: schedule exploration of Waker / Channel / PipedThread (C11-C14).
//!
//! stakker is built here with `--cfg uazu_stakker_verif`, which makes its three
//! sync modules use shuttle's Arc/Mutex/Condvar/atomics/spawn: every atomic and
//! lock operation inside the crate is a scheduling point.  A case is a pair
//! (scenario bytes, schedule bytes): the scenario bytes decode into worker and
//! main-thread scripts, the schedule bytes drive a custom shuttle `Scheduler`
//! (byte -> choice among the runnable tasks; when exhausted, keep running the
//! current task), so scenario and schedule shrink together.  Bulk exploration
//! additionally runs each scenario under shuttle's seeded random and PCT
//! schedulers.

mod scen;

use proptest::prelude::*;
use proptest::test_runner::{Config as PConfig, RngSeed, TestCaseError, TestError, TestRunner};
use serde_json::{json, Value};
use shuttle::scheduler::{PctScheduler, RandomScheduler, Schedule, Scheduler, Task, TaskId};
use shuttle::{Config, MaxSteps, Runner};
use std::cell::RefCell;
use std::collections::{BTreeMap, HashSet};
use std::fs;
use std::path::Path;
use std::sync::Mutex;

pub const VERIF: &str = "/verif";

pub fn hex(b: &[u8]) -> String {
    b.iter().map(|x| format!("{:02x}", x)).collect()
}
pub fn unhex(s: &str) -> Vec<u8> {
    let s = s.trim();
    (0..s.len() / 2).map(|i| u8::from_str_radix(&s[2 * i..2 * i + 2], 16).unwrap()).collect()
}
pub fn fnv(bytes: &[u8]) -> u64 {
    let mut h: u64 = 0xcbf29ce484222325;
    for b in bytes {
        h ^= *b as u64;
        h = h.wrapping_mul(0x100000001b3);
    }
    h
}

/// Byte-driven scheduler: each scheduling decision consumes one byte and maps it
/// monotonically onto the runnable tasks (sorted by id).  Without bytes the current
/// task continues (the preemption-free run).
#[derive(Debug)]
struct ByteScheduler {
    bytes: Vec<u8>,
    pos: usize,
    started: bool,
    pub preemptions: usize,
}

impl Scheduler for ByteScheduler {
    fn new_execution(&mut self) -> Option<Schedule> {
        if self.started {
            None
        } else {
            self.started = true;
            self.pos = 0;
            Some(Schedule::new(0))
        }
    }
    fn next_task(&mut self, runnable: &[&Task], current: Option<TaskId>, _is_yielding: bool) -> Option<TaskId> {
        let mut ids: Vec<TaskId> = runnable.iter().map(|t| t.id()).collect();
        ids.sort();
        if ids.is_empty() {
            return None;
        }
        let cur_runnable = current.map(|c| ids.contains(&c)).unwrap_or(false);
        if self.pos < self.bytes.len() {
            let b = self.bytes[self.pos] as usize;
            self.pos += 1;
            let pick = ids[(b * ids.len()) >> 8];
            if cur_runnable && Some(pick) != current {
                self.preemptions += 1;
            }
            Some(pick)
        } else if cur_runnable {
            current
        } else {
            Some(ids[0])
        }
    }
    fn next_u64(&mut self) -> u64 {
        0
    }
}

#[derive(Clone, Debug)]
pub enum Sched {
    Bytes(Vec<u8>),
    Random(u64),
    Pct(u64, usize),
}

pub struct Outcome {
    pub violation: Option<String>,
    pub nontrivial: bool,
    pub classes: Vec<&'static str>,
    pub trace: Vec<String>,
}

static RESULT: Mutex<Option<Outcome>> = Mutex::new(None);

pub fn set_outcome(o: Outcome) {
    *RESULT.lock().unwrap() = Some(o);
}

fn panic_message(e: Box<dyn std::any::Any + Send>) -> String {
    if let Some(s) = e.downcast_ref::<String>() {
        s.clone()
    } else if let Some(s) = e.downcast_ref::<&str>() {
        s.to_string()
    } else {
        "panic".to_string()
    }
}

/// Execute one (scenario, schedule) pair
pub fn run_one(prop: &str, scn: &[u8], sched: &Sched, trace: bool) -> Outcome {
    *RESULT.lock().unwrap() = None;
    let mut cfg = Config::new();
    cfg.stack_size = 0x80000;
    cfg.max_steps = MaxSteps::FailAfter(400_000);
    cfg.failure_persistence = shuttle::FailurePersistence::None;
    cfg.silence_warnings = true;
    let prop2 = prop.to_string();
    let scn2 = scn.to_vec();
    let body = move || scen::run_scenario(&prop2, &scn2, trace);
    let sched = sched.clone();
    let r = std::panic::catch_unwind(std::panic::AssertUnwindSafe(move || match sched {
        Sched::Bytes(b) => {
            Runner::new(ByteScheduler { bytes: b, pos: 0, started: false, preemptions: 0 }, cfg).run(body);
        }
        Sched::Random(seed) => {
            Runner::new(RandomScheduler::new_from_seed(seed, 1), cfg).run(body);
        }
        Sched::Pct(seed, depth) => {
            Runner::new(PctScheduler::new_from_seed(seed, depth, 1), cfg).run(body);
        }
    }));
    match r {
        Ok(()) => RESULT.lock().unwrap().take().unwrap_or(Outcome {
            violation: Some("scenario finished without reporting an outcome".into()),
            nontrivial: false,
            classes: vec![],
            trace: vec![],
        }),
        Err(e) => {
            let m = panic_message(e);
            let prior = RESULT.lock().unwrap().take();
            let first = m.lines().next().unwrap_or("").to_string();
            let violation = if first.contains("deadlock") {
                Some(format!("lost wake-up: the execution deadlocks ({})", first))
            } else if first.contains("exceeded max_steps") || first.contains("max_steps") {
                Some(format!("no progress: {}", first))
            } else {
                Some(format!("panic during the execution: {}", first))
            };
            Outcome {
                violation,
                nontrivial: prior.as_ref().map(|p| p.nontrivial).unwrap_or(false),
                classes: prior.as_ref().map(|p| p.classes.clone()).unwrap_or_default(),
                trace: prior.map(|p| p.trace).unwrap_or_default(),
            }
        }
    }
}

fn quiet_panics() {
    std::panic::set_hook(Box::new(|_| {}));
}

fn worker(a: &[String]) -> i32 {
    // prop seed cases extra_scheds scn_len sched_len out widx
    let prop = a[0].clone();
    let wseed: u64 = a[1].parse().unwrap();
    let cases: u32 = a[2].parse().unwrap();
    let extra: u32 = a[3].parse().unwrap();
    let scn_len: usize = a[4].parse().unwrap();
    let sched_len: usize = a[5].parse().unwrap();
    let out = a[6].clone();
    quiet_panics();
    struct St {
        evals: u64,
        nt: HashSet<u64>,
        classes: BTreeMap<String, u64>,
        samples: Vec<Value>,
        failed: bool,
        fail_sched: Option<Sched>,
    }
    let st = RefCell::new(St { evals: 0, nt: HashSet::new(), classes: BTreeMap::new(), samples: Vec::new(), failed: false, fail_sched: None });
    let mut runner = TestRunner::new(PConfig {
        cases,
        rng_seed: RngSeed::Fixed(wseed),
        failure_persistence: None,
        max_shrink_iters: 3000,
        ..PConfig::default()
    });
    let strat = (
        proptest::collection::vec(any::<u8>(), 0..scn_len),
        proptest::collection::vec(any::<u8>(), 0..sched_len),
    );
    let result = runner.run(&strat, |(scn, sch)| {
        // the byte-driven schedule first, then seeded random / PCT schedules of the same scenario
        let mut scheds = vec![Sched::Bytes(sch.clone())];
        {
            let s = st.borrow();
            if let Some(fs) = &s.fail_sched {
                // while shrinking keep using the scheduler that failed
                if !matches!(fs, Sched::Bytes(_)) {
                    scheds = vec![fs.clone()];
                }
            } else {
                let h = fnv(&scn) ^ fnv(&sch).rotate_left(17);
                for k in 0..extra {
                    if k % 3 == 2 {
                        scheds.push(Sched::Pct(h.wrapping_add(k as u64), 1 + (k as usize / 3) % 5));
                    } else {
                        scheds.push(Sched::Random(h.wrapping_add(k as u64)));
                    }
                }
            }
        }
        for sc in scheds {
            let o = run_one(&prop, &scn, &sc, false);
            let mut s = st.borrow_mut();
            if !s.failed {
                s.evals += 1;
                for c in &o.classes {
                    *s.classes.entry(c.to_string()).or_insert(0) += 1;
                }
                if o.nontrivial {
                    let mut key = scn.clone();
                    key.extend_from_slice(format!("{:?}", sc).as_bytes());
                    if s.nt.insert(fnv(&key)) && s.samples.len() < 1 {
                        drop(s);
                        let o2 = run_one(&prop, &scn, &sc, true);
                        s = st.borrow_mut();
                        let mut tr = o2.trace;
                        tr.truncate(80);
                        s.samples.push(json!({"scenario": hex(&scn), "schedule": format!("{:?}", sc), "case": tr}));
                    }
                }
            }
            if let Some(v) = o.violation {
                s.failed = true;
                if s.fail_sched.is_none() {
                    s.fail_sched = Some(sc.clone());
                }
                return Err(TestCaseError::fail(v));
            }
        }
        Ok(())
    });
    let mut s = st.into_inner();
    let mut nt: Vec<u64> = s.nt.drain().collect();
    nt.sort();
    let mut outv = json!({"evaluations": s.evals, "classes": s.classes, "samples": s.samples, "nt": nt});
    let mut code = 0;
    if let Err(TestError::Fail(reason, (scn, sch))) = result {
        let sched = match &s.fail_sched {
            Some(Sched::Bytes(_)) | None => Sched::Bytes(sch),
            Some(o) => o.clone(),
        };
        let o = run_one(&prop, &scn, &sched, true);
        let dir = Path::new(VERIF).join("evidence/replays");
        fs::create_dir_all(&dir).unwrap();
        let path = dir.join(format!("{}-sched-{:016x}.json", prop, fnv(&scn) ^ fnv(format!("{:?}", sched).as_bytes())));
        fs::write(
            &path,
            serde_json::to_vec_pretty(&json!({
                "property": prop, "engine": "sched", "scenario": hex(&scn),
                "schedule": sched_json(&sched), "message": reason.to_string(), "case": o.trace,
            }))
            .unwrap(),
        )
        .unwrap();
        outv["violation"] = json!({"replay": path.to_string_lossy(), "message": reason.to_string()});
        code = 1;
    }
    fs::write(&out, serde_json::to_vec(&outv).unwrap()).unwrap();
    code
}

fn sched_json(s: &Sched) -> Value {
    match s {
        Sched::Bytes(b) => json!({"kind": "bytes", "bytes": hex(b)}),
        Sched::Random(seed) => json!({"kind": "random", "seed": seed.to_string()}),
        Sched::Pct(seed, d) => json!({"kind": "pct", "seed": seed.to_string(), "depth": d}),
    }
}

fn sched_from(v: &Value) -> Sched {
    match v["kind"].as_str().unwrap_or("bytes") {
        "random" => Sched::Random(v["seed"].as_str().unwrap().parse().unwrap()),
        "pct" => Sched::Pct(v["seed"].as_str().unwrap().parse().unwrap(), v["depth"].as_u64().unwrap() as usize),
        _ => Sched::Bytes(unhex(v["bytes"].as_str().unwrap_or(""))),
    }
}

fn replay(path: &str) -> i32 {
    quiet_panics();
    let v: Value = serde_json::from_slice(&fs::read(path).expect("replay file")).expect("json");
    let prop = std::env::var("VERIF_REPLAY_PROP").unwrap_or_else(|_| v["property"].as_str().unwrap().to_string());
    let scn = unhex(v["scenario"].as_str().unwrap());
    let sched = sched_from(&v["schedule"]);
    let o = run_one(&prop, &scn, &sched, true);
    for l in &o.trace {
        println!("{}", l);
    }
    match o.violation {
        Some(m) => {
            println!("  [sched] {}", m);
            println!("VIOLATION property={} replay={}", prop, path);
            1
        }
        None => {
            println!("replay: property {} holds on this scenario and schedule", prop);
            0
        }
    }
}

fn main() {
    let args: Vec<String> = std::env::args().collect();
    let code = match args.get(1).map(|s| s.as_str()) {
        Some("worker") => worker(&args[2..]),
        Some("replay") => replay(&args[2]),
        _ => {
            eprintln!("usage: vsched worker ... | replay <file>");
            2
        }
    };
    std::process::exit(code);
}
