//! E3: differential test of the flat (unsafe) FnOnce queue against the boxed
//! queue (C17, supports C01/C16).  Both source files are compiled side by
//! side straight from /repo; the same operation sequence is applied to a
//! world of K flat queues and a world of K boxed queues and the complete
//! event logs (closures run with the bytes they captured, closures dropped
//! un-run, is_empty answers) must be identical.

#![allow(dead_code)]

#[path = "/repo/src/queue/boxed.rs"]
#[allow(clippy::all)]
mod boxed;
#[path = "/repo/src/queue/flat.rs"]
#[allow(clippy::all)]
mod flat;

use crate::shapes::SHAPES;
use crate::{CaseReport, Cur, Opts};
use std::cell::RefCell;

pub trait World: 'static + Sized {
    fn new(nq: usize) -> Self;
    fn push<F: FnOnce(&mut Self) + 'static>(&mut self, q: usize, f: F);
    fn push_box(&mut self, q: usize, f: Box<dyn FnOnce(&mut Self) + 'static>);
    fn exec(&mut self, q: usize);
    fn is_empty(&self, q: usize) -> bool;
    fn drop_q(&mut self, q: usize);
    fn nq(&self) -> usize;
}

macro_rules! world_impl {
    ($name:ident, $q:ty) => {
        pub struct $name {
            qs: Vec<$q>,
        }
        impl World for $name {
            fn new(nq: usize) -> Self {
                Self {
                    qs: (0..nq).map(|_| <$q>::new()).collect(),
                }
            }
            #[inline]
            fn push<F: FnOnce(&mut Self) + 'static>(&mut self, q: usize, f: F) {
                self.qs[q].push(f);
            }
            fn push_box(&mut self, q: usize, f: Box<dyn FnOnce(&mut Self) + 'static>) {
                self.qs[q].push_box(f);
            }
            fn exec(&mut self, q: usize) {
                // Same protocol as Stakker::run: swap the queue out, execute it while
                // closures may push onto the (fresh) queue in its place, keep the
                // emptied buffer for reuse if nothing was pushed meanwhile
                let mut taken = std::mem::replace(&mut self.qs[q], <$q>::new());
                taken.execute(self);
                if self.qs[q].is_empty() {
                    self.qs[q] = taken;
                }
            }
            fn is_empty(&self, q: usize) -> bool {
                self.qs[q].is_empty()
            }
            fn drop_q(&mut self, q: usize) {
                self.qs[q] = <$q>::new();
            }
            fn nq(&self) -> usize {
                self.qs.len()
            }
        }
    };
}

world_impl!(WF, flat::FnOnceQueue<WF>);
world_impl!(WB, boxed::FnOnceQueue<WB>);

thread_local! {
    static LOG: RefCell<Vec<u64>> = const { RefCell::new(Vec::new()) };
    static CORRUPT: RefCell<Option<String>> = const { RefCell::new(None) };
}

const EV_RUN: u64 = 1 << 60;
const EV_DROP: u64 = 2 << 60;
const EV_EMPTY: u64 = 3 << 60;
const EV_EXEC: u64 = 4 << 60;
const EV_MASK: u64 = (1 << 60) - 1;

#[inline]
fn log(v: u64) {
    LOG.with(|l| l.borrow_mut().push(v));
}

#[inline]
fn pat(id: u32, i: usize) -> u8 {
    let h = id.wrapping_mul(2654435761).rotate_left((i as u32 % 4) * 8);
    (h as u8) ^ (i as u8) ^ ((i >> 8) as u8).wrapping_mul(37)
}

/// A closure capture of exactly S bytes with alignment of A (S is a multiple of it).
/// All state lives in the bytes: id in [0..4], nested-action spec in [4..8].
#[repr(C)]
pub struct Cap<const S: usize, A: Copy + 'static> {
    bytes: [u8; S],
    al: [A; 0],
}

impl<const S: usize, A: Copy + 'static> Cap<S, A> {
    #[inline]
    pub fn new(id: u32, nested: u32) -> Self {
        let mut bytes = [0u8; S];
        for (i, b) in bytes.iter_mut().enumerate() {
            *b = pat(id, i);
        }
        if S >= 4 {
            bytes[0..4].copy_from_slice(&id.to_le_bytes());
        }
        if S >= 8 {
            bytes[4..8].copy_from_slice(&nested.to_le_bytes());
        }
        Self { bytes, al: [] }
    }
    fn hash(&self) -> u64 {
        let mut h = crate::fnv(&self.bytes);
        h ^= (S as u64) << 20 ^ (std::mem::align_of::<A>() as u64) << 40;
        h & EV_MASK
    }
    fn verify(&self, what: &str) {
        if S >= 4 {
            let id = u32::from_le_bytes(self.bytes[0..4].try_into().unwrap());
            let from = if S >= 8 { 8 } else { 4 };
            for i in from..S {
                if self.bytes[i] != pat(id, i) {
                    CORRUPT.with(|c| {
                        let mut c = c.borrow_mut();
                        if c.is_none() {
                            *c = Some(format!(
                                "closure id {} (size {}, align {}) captured data corrupted at byte {} when {}",
                                id,
                                S,
                                std::mem::align_of::<A>(),
                                i,
                                what
                            ));
                        }
                    });
                    return;
                }
            }
        }
    }
    #[inline]
    pub fn run<W: World>(self, w: &mut W) {
        log(EV_RUN | self.hash());
        self.verify("run");
        if S >= 8 {
            let id = u32::from_le_bytes(self.bytes[0..4].try_into().unwrap());
            let nested = u32::from_le_bytes(self.bytes[4..8].try_into().unwrap());
            if nested != 0 {
                do_nested(w, id, nested);
            }
        }
        std::mem::forget(self);
    }
}

impl<const S: usize, A: Copy + 'static> Drop for Cap<S, A> {
    fn drop(&mut self) {
        // Only reached when the closure is dropped without having run
        log(EV_DROP | self.hash());
        self.verify("dropped un-run");
    }
}

// nested spec: bits 0..2 depth (0 = none), 2..4 target queue, 4..13 shape, 13 boxed
fn mk_nested(depth: u32, q: u32, shape: u32, boxed: bool) -> u32 {
    (depth & 3) | ((q & 3) << 2) | ((shape & 0x1FF) << 4) | ((boxed as u32) << 13)
}

fn do_nested<W: World>(w: &mut W, id: u32, nested: u32) {
    let depth = nested & 3;
    if depth == 0 {
        return;
    }
    let q = ((nested >> 2) & 3) as usize % w.nq();
    let shape = ((nested >> 4) & 0x1FF) as usize % SHAPES.len();
    let boxed = (nested >> 13) & 1 != 0;
    let child_nested = mk_nested(depth - 1, (q as u32 + 1) & 3, (shape as u32 * 7 + 3) & 0x1FF, !boxed);
    push_shape(w, q, shape, id.wrapping_mul(31).wrapping_add(1), child_nested, boxed);
}

macro_rules! push_one {
    ($s:expr, $a:ty, $w:expr, $q:expr, $id:expr, $nested:expr, $boxed:expr) => {{
        let cap = Cap::<$s, $a>::new($id, $nested);
        if $boxed {
            $w.push_box($q, Box::new(move |w: &mut W| cap.run(w)));
        } else {
            $w.push($q, move |w: &mut W| cap.run(w));
        }
    }};
}

#[inline(never)]
pub fn push_shape<W: World>(w: &mut W, q: usize, shape: usize, id: u32, nested: u32, boxed: bool) {
    crate::for_shape!(shape, push_one, w, q, id, nested, boxed)
}

#[derive(Clone, Copy, Debug)]
pub enum QOp {
    Push { q: usize, shape: usize, id: u32, nested: u32, boxed: bool },
    Fill { q: usize, n: usize },
    Exec { q: usize },
    IsEmpty { q: usize },
    DropQ { q: usize },
    /// allocate (and keep) a padding block so later buffers land at other addresses
    Pad { size: usize },
    Unpad,
}

fn apply<W: World>(nq: usize, ops: &[QOp]) -> Vec<u64> {
    LOG.with(|l| l.borrow_mut().clear());
    let mut pads: Vec<Vec<u8>> = Vec::new();
    {
        let mut w = W::new(nq);
        for op in ops {
            match *op {
                QOp::Push { q, shape, id, nested, boxed } => push_shape(&mut w, q, shape, id, nested, boxed),
                QOp::Fill { q, n } => {
                    for _ in 0..n {
                        // zero-capture closure: 8 bytes in the flat buffer
                        w.push(q, |_w: &mut W| log(EV_RUN));
                    }
                }
                QOp::Exec { q } => {
                    log(EV_EXEC | q as u64);
                    w.exec(q);
                    log(EV_EXEC | 8 | q as u64);
                }
                QOp::IsEmpty { q } => log(EV_EMPTY | (q as u64) << 1 | w.is_empty(q) as u64),
                QOp::DropQ { q } => {
                    log(EV_EXEC | 16 | q as u64);
                    w.drop_q(q);
                }
                QOp::Pad { size } => pads.push(vec![0u8; size]),
                QOp::Unpad => {
                    pads.pop();
                }
            }
        }
        // final: report emptiness, then drop the world (drops all un-run closures)
        for q in 0..nq {
            log(EV_EMPTY | (q as u64) << 1 | w.is_empty(q) as u64);
        }
        log(EV_EXEC | 32);
    }
    LOG.with(|l| std::mem::take(&mut *l.borrow_mut()))
}

fn describe_ev(v: u64) -> String {
    match v >> 60 {
        1 => format!("run {:015x}", v & EV_MASK),
        2 => format!("drop-unrun {:015x}", v & EV_MASK),
        3 => format!("is_empty(q{})={}", (v & EV_MASK) >> 1, v & 1),
        4 => format!("marker {}", v & EV_MASK),
        _ => format!("{:x}", v),
    }
}

/// Apply one op sequence to both worlds and compare; returns an error message on mismatch
pub fn differential(nq: usize, ops: &[QOp]) -> Result<usize, String> {
    CORRUPT.with(|c| *c.borrow_mut() = None);
    let lf = apply::<WF>(nq, ops);
    let cf = CORRUPT.with(|c| c.borrow_mut().take());
    let lb = apply::<WB>(nq, ops);
    let cb = CORRUPT.with(|c| c.borrow_mut().take());
    if let Some(m) = cf {
        return Err(format!("flat queue: {}", m));
    }
    if let Some(m) = cb {
        return Err(format!("boxed queue: {}", m));
    }
    if lf != lb {
        let n = lf.iter().zip(lb.iter()).take_while(|(a, b)| a == b).count();
        return Err(format!(
            "flat and boxed queues diverge at event {} (flat: {} events, boxed: {}): flat {} vs boxed {}",
            n,
            lf.len(),
            lb.len(),
            lf.get(n).map(|v| describe_ev(*v)).unwrap_or("<end>".into()),
            lb.get(n).map(|v| describe_ev(*v)).unwrap_or("<end>".into())
        ));
    }
    Ok(lf.len())
}

/// Capacity the flat queue reaches after j growth steps from empty, and
/// the ops that bring a fresh queue to exactly that capacity with nothing
/// but the chained-old-buffer item in it
fn grow_to(q: usize, j: usize) -> Vec<QOp> {
    // 1024-byte initial buffer filled by 128 zero-capture closures, the next push
    // grows to 2048 (chaining the old buffer as first item, 32 bytes), and so on
    let mut ops = Vec::new();
    let mut cap = 1024usize;
    let mut used = 0usize;
    for _ in 0..j {
        ops.push(QOp::Fill { q, n: (cap - used) / 8 + 1 });
        cap *= 2;
        used = 32 + 8;
    }
    ops
}

/// Deterministic boundary sweep: shard `part` of `parts`.  For every growth
/// level j <= jmax, every residual fill level (8-byte granularity) and every
/// probe shape: fill, push the probe, then either execute or drop.
pub fn sweep(
    jmax: usize,
    part: usize,
    parts: usize,
    rep: &mut CaseReport,
    mut inflight: impl FnMut(usize, usize, usize, usize),
) -> (u64, u64) {
    let mut n = 0u64;
    let mut nt = 0u64;
    let mut idx = 0usize;
    for j in 0..=jmax {
        let cap = 1024usize << j;
        let prefix = grow_to(0, j);
        let base_used = if j == 0 { 0 } else { 40 };
        // fills from "far from the boundary" is pointless: only the last 4400 bytes can interact
        // with a probe of <= 4096+128 bytes; below that every probe fits trivially.
        let k_max = (cap - base_used) / 8;
        let k_min = k_max.saturating_sub((4096 + 256) / 8);
        for k in k_min..=k_max {
            for shape in 0..SHAPES.len() {
                for tail in 0..2 {
                    idx += 1;
                    if idx % parts != part {
                        continue;
                    }
                    inflight(j, k, shape, tail);
                    let mut ops = prefix.clone();
                    ops.push(QOp::Fill { q: 0, n: k });
                    ops.push(QOp::Push {
                        q: 0,
                        shape,
                        id: (idx as u32).wrapping_mul(2246822519),
                        nested: 0,
                        boxed: false,
                    });
                    ops.push(QOp::IsEmpty { q: 0 });
                    if tail == 0 {
                        ops.push(QOp::Exec { q: 0 });
                    } else {
                        ops.push(QOp::DropQ { q: 0 });
                    }
                    n += 1;
                    let (s, a) = SHAPES[shape];
                    if a >= 16 || s >= 1024 || (tail == 1 && j > 0) {
                        nt += 1;
                    }
                    if let Err(m) = crate::pcatch::catch(|| differential(1, &ops)).unwrap_or_else(|p| Err(format!("panic: {}", p))) {
                        rep.viol(
                            &["C17"],
                            "sweep-diverge",
                            format!(
                                "growth level {} (capacity {}), {} zero-capture closures queued, probe closure size {} align {}, then {}: {}",
                                j,
                                cap,
                                k,
                                s,
                                a,
                                if tail == 0 { "execute" } else { "drop" },
                                m
                            ),
                        );
                        rep.trace.push(format!("sweep j={} k={} shape={} tail={}", j, k, shape, tail));
                        return (n, nt);
                    }
                }
            }
        }
    }
    (n, nt)
}

/// Re-run exactly one sweep point (replay)
pub fn sweep_point(j: usize, k: usize, shape: usize, tail: usize) -> Result<usize, String> {
    let mut ops = grow_to(0, j);
    ops.push(QOp::Fill { q: 0, n: k });
    ops.push(QOp::Push { q: 0, shape, id: 12345, nested: 0, boxed: false });
    ops.push(QOp::IsEmpty { q: 0 });
    ops.push(if tail == 0 { QOp::Exec { q: 0 } } else { QOp::DropQ { q: 0 } });
    crate::pcatch::catch(|| differential(1, &ops)).unwrap_or_else(|p| Err(format!("panic: {}", p)))
}

pub fn decode(bytes: &[u8], size: u32) -> (usize, Vec<QOp>) {
    let mut c = Cur::new(bytes);
    let nq = 1 + c.pick(4);
    let max_ops = if size == 0 { 80 } else { 400 };
    let mut ops = Vec::new();
    let mut id = 1u32;
    while !c.done() && ops.len() < max_ops {
        let q = c.pick(nq);
        match c.weighted(&[10, 3, 5, 5, 2, 1, 1, 1]) {
            0 | 1 => {
                let boxed = c.chance(50);
                let shape = match c.weighted(&[2, 3, 2]) {
                    0 => c.pick(16),
                    1 => c.pick16(SHAPES.len()),
                    _ => {
                        // large shapes (last third of table for each alignment are large)
                        let i = c.pick16(SHAPES.len());
                        if SHAPES[i].0 >= 256 { i } else { SHAPES.len() - 1 - c.pick(40) }
                    }
                };
                let nested = if c.chance(70) {
                    mk_nested(1 + c.pick(3) as u32, c.pick(4) as u32, c.pick16(512) as u32, c.bool())
                } else {
                    0
                };
                id = id.wrapping_add(1);
                ops.push(QOp::Push { q, shape, id, nested, boxed });
            }
            2 => ops.push(QOp::Fill {
                q,
                n: match c.pick(4) {
                    0 => 1 + c.pick(8),
                    1 => 100 + c.pick(60),
                    2 => 120 + c.pick(16),
                    _ => 1 + c.pick16(600),
                },
            }),
            3 => ops.push(QOp::Exec { q }),
            4 => ops.push(QOp::IsEmpty { q }),
            5 => ops.push(QOp::DropQ { q }),
            6 => ops.push(QOp::Pad { size: 8 * (1 + c.pick(64)) }),
            _ => ops.push(QOp::Unpad),
        }
    }
    (nq, ops)
}

pub fn run_case(bytes: &[u8], opts: &Opts) -> CaseReport {
    let mut rep = CaseReport::default();
    let (nq, ops) = decode(bytes, opts.size);
    rep.ops = ops.len() as u64;
    if opts.trace {
        rep.trace.push(format!("{} queue(s) of each implementation", nq));
        for op in &ops {
            rep.trace.push(match *op {
                QOp::Push { q, shape, id, nested, boxed } => format!(
                    "push{} q{} closure id {} size {} align {}{}",
                    if boxed { "_box" } else { "" },
                    q,
                    id,
                    SHAPES[shape].0,
                    SHAPES[shape].1,
                    if nested & 3 != 0 && SHAPES[shape].0 >= 8 {
                        format!(
                            " [when run: pushes size {} align {} onto q{}, chain depth {}]",
                            SHAPES[((nested >> 4) & 0x1FF) as usize % SHAPES.len()].0,
                            SHAPES[((nested >> 4) & 0x1FF) as usize % SHAPES.len()].1,
                            ((nested >> 2) & 3) as usize % nq,
                            nested & 3
                        )
                    } else {
                        String::new()
                    }
                ),
                o => format!("{:?}", o),
            });
        }
    }
    // classes / non-trivial: crosses a growth boundary with a probe of alignment >= 16 or
    // size >= 1 KiB, or drops a queue holding a chained old buffer
    let mut used = vec![0usize; nq];
    let mut grew = vec![false; nq];
    let mut nt = false;
    for op in &ops {
        match *op {
            QOp::Push { q, shape, .. } => {
                let (s, a) = SHAPES[shape];
                used[q] += 8 + s + a;
                if used[q] > 1024 {
                    if a >= 16 || s >= 1024 {
                        nt = true;
                    }
                    grew[q] = true;
                }
            }
            QOp::Fill { q, n } => {
                used[q] += 8 * n;
                if used[q] > 1024 {
                    grew[q] = true;
                }
            }
            QOp::Exec { q } => {
                used[q] = 0;
                grew[q] = false;
            }
            QOp::DropQ { q } => {
                if grew[q] {
                    nt = true;
                    rep.class("drop-queue-with-chained-buffer");
                }
                used[q] = 0;
                grew[q] = false;
            }
            _ => {}
        }
    }
    if grew.iter().any(|g| *g) {
        rep.class("buffer-growth");
    }
    if ops.iter().any(|o| matches!(o, QOp::Push { nested, shape, .. } if nested & 3 != 0 && SHAPES[*shape].0 >= 8)) {
        rep.class("closure-pushes-while-executing");
    }
    if nt {
        rep.nt("C17");
    }
    match crate::pcatch::catch(|| differential(nq, &ops)) {
        Ok(Ok(_)) => {}
        Ok(Err(m)) => rep.viol(&["C17"], "diverge", m),
        Err(p) => rep.viol(&["C17"], "panic", format!("panic in queue code: {}", p)),
    }
    rep
}
