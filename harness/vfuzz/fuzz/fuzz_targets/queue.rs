#![no_main]
//! Coverage-guided fuzzing (libFuzzer + AddressSanitizer) of the `queues` engine: the bytes are
//! decoded by the same decoder proptest uses, the semantic oracle runs inside the target, and a
//! violation of the property named in VERIF_FUZZ_PROP (default: any) aborts the run so that
//! libFuzzer saves the input.
use libfuzzer_sys::fuzz_target;

fuzz_target!(|data: &[u8]| {
    let prop = std::env::var("VERIF_FUZZ_PROP").unwrap_or_default();
    let opts = vcore::Opts {
        focus: prop.clone(),
        size: 1,
        ..Default::default()
    };
    let rep = vcore::run_engine("queues", data, &opts);
    let hit = if prop.is_empty() {
        rep.violations.first()
    } else {
        rep.violates(&prop)
    };
    if let Some(v) = hit {
        eprintln!("VIOLATION-IN-TARGET {:?} [{}] {}", v.props, v.rule, v.msg);
        std::process::abort();
    }
});
