//! Byte cursor: the only source of "randomness" inside a case.  Exhausted
//! input yields zeros, and zero always maps to the simplest choice, so that
//! shrinking the byte string (shorter, smaller bytes) shrinks the case.

pub struct Cur<'a> {
    b: &'a [u8],
    p: usize,
}

impl<'a> Cur<'a> {
    pub fn new(b: &'a [u8]) -> Self {
        Self { b, p: 0 }
    }
    #[inline]
    pub fn u8(&mut self) -> u8 {
        let v = self.b.get(self.p).copied().unwrap_or(0);
        self.p += 1;
        v
    }
    pub fn done(&self) -> bool {
        self.p >= self.b.len()
    }
    pub fn pos(&self) -> usize {
        self.p
    }
    pub fn u16(&mut self) -> u16 {
        let a = self.u8() as u16;
        let b = self.u8() as u16;
        (a << 8) | b
    }
    pub fn u32(&mut self) -> u32 {
        let a = self.u16() as u32;
        let b = self.u16() as u32;
        (a << 16) | b
    }
    pub fn u64(&mut self) -> u64 {
        let a = self.u32() as u64;
        let b = self.u32() as u64;
        (a << 32) | b
    }
    /// Monotone map of one byte onto 0..n (n <= 256)
    #[inline]
    pub fn pick(&mut self, n: usize) -> usize {
        debug_assert!(n >= 1 && n <= 256);
        (self.u8() as usize * n) >> 8
    }
    /// Monotone map of two bytes onto 0..n (n <= 65536)
    pub fn pick16(&mut self, n: usize) -> usize {
        debug_assert!(n >= 1 && n <= 65536);
        (self.u16() as usize * n) >> 16
    }
    /// Monotone map of four bytes onto 0..n
    pub fn pick32(&mut self, n: u64) -> u64 {
        debug_assert!(n >= 1);
        ((self.u32() as u128 * n as u128) >> 32) as u64
    }
    pub fn bool(&mut self) -> bool {
        self.u8() >= 128
    }
    /// True with probability about num/256; zero byte gives false
    pub fn chance(&mut self, num: u32) -> bool {
        (self.u8() as u32) >= 256 - num.min(256)
    }
    /// Weighted choice; index 0 is the "simplest" and is what byte 0 selects
    pub fn weighted(&mut self, w: &[u32]) -> usize {
        let total: u32 = w.iter().sum();
        let v = (self.u8() as u32 * total) >> 8;
        let mut acc = 0;
        for (i, x) in w.iter().enumerate() {
            acc += *x;
            if v < acc {
                return i;
            }
        }
        w.len() - 1
    }
}
