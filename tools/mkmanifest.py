#!/usr/bin/env python3
"""Generate /verif/MANIFEST.json from the table below (kept in one place so the
manifest stays valid while checks are added)."""
import json, subprocess

ALL = ["C%02d" % i for i in range(1, 21)]

TIMERS_NOTE = ("Assumes the harness's deadline model (per timer: effective expiry, time it was set, state) is a faithful reading of the "
    "property; trusted base: rustc/std, proptest (RNG, shrinking), virtual time owned by the harness. Evidence is absence of a "
    "counter-example in N generated histories, not a proof.")

CLAIMED = {
 "C07": dict(engine="E2 timer histories", ref="5/C07", technique="property-based testing (proptest over byte-decoded timer histories) against a deadline reference model; shrunk failures become replay files",
   text="Generated add/update/delete/run histories of fixed/Max/Min timers (from top level, main-queue items and timer callbacks; expiries at sub-tick offsets, around 32767 s/65536 s, days ahead, in the past) are executed on the real Stakker in virtual time; every callback must observe Core::now() >= its model effective expiry, inside run() and never inside a timer API call. Exploration is the right level: the property quantifies over histories and instants, and the oracle is exact in this direction.",
   note=TIMERS_NOTE),
 "C08": dict(engine="E2 timer histories", ref="5/C08", technique="property-based testing (proptest, stateful histories) against a deadline reference model; panics inside the crate count as violations",
   text="Same generated histories, weighted to Min/Max updates at/before now and multi-period jumps: after every run no pending timer may be a full resolution step past max(effective expiry, time set); each timer fires at most once and, after the follow-next_expiry drain, exactly once; any panic (harness builds keep overflow checks and debug assertions on) is a violation. Found and fixed F1 (timer_min_upd underflow).",
   note=TIMERS_NOTE),
 "C09": dict(engine="E2 timer histories", ref="5/C09", technique="property-based testing (proptest) with invariant checks after every operation and a bounded drain loop",
   text="After every generated operation next_expiry() is compared with the model: None iff nothing pending, strictly later than now, at most one step after the earliest pending deadline; next_wait/next_wait_max are compared with the documented formula for generated now/maxdur/pending; each history ends by running at next_expiry() until empty under an iteration budget.",
   note=TIMERS_NOTE),
 "C10": dict(engine="E2 timer histories", ref="5/C10", technique="property-based testing (proptest, stateful histories recycling slots) with a three-zone key oracle",
   text="Every key ever issued and the Default key of each kind may be used at any later point of a generated history; answers must be true for a pending not-yet-due timer, false forever after fire/delete, and for timers due in the current run either answer is accepted but binds the future (true => never fires, false => fires in this run). Stale/default keys must leave every other timer's model behaviour intact, which the concurrent C07-C09 oracles enforce.",
   note=TIMERS_NOTE),
 "C19": dict(engine="E2 timer histories", ref="5/C19", technique="property-based testing (proptest) with a pairwise order oracle over each run's firing log",
   text="Generated bursts of short fixed timers sharing or nearly sharing instants are expired by single runs; for each pair firing in one run the one with the smaller deadline (by >= 2 steps) must run first, identical instant+creation time must run in creation order, and main-queue calls queued before run() must start before the first callback.",
   note=TIMERS_NOTE),
 "C17": dict(engine="E3 queue differential", ref="5/C17", technique="differential property-based testing (proptest op sequences + enumerated boundary sweep) of flat.rs against boxed.rs compiled side by side",
   text="The same push/push_box/execute/is_empty/drop sequences, over 183 closure shapes (sizes 0..4096 x alignments 1..128, dense around powers of two) and closures that push onto other queues while executing, are applied to the flat and the boxed queue; complete event logs (closure run with a hash of its captured bytes, un-run drops, is_empty answers) must be identical and captured byte patterns intact. A deterministic sweep places every shape at every 8-byte residual fill level before each growth boundary. Debug assertions on; process crashes are replayed in a fresh process and reported only if they reproduce.",
   note="Trusted: rustc/std, proptest, boxed.rs as the reference implementation. The flat queue is exercised through the same generic entry points Stakker uses (push with monomorphised closures, push_box, execute, Drop). AddressSanitizer coverage comes from the fuzz leg when built (thorough)."),
}


VM_NOTE = ("Assumes the specification-level monitor (abstract FIFOs, Prep/Ready/Zombie, owner counts, pending termination effects; Appendix A of DESIGN.md) reads the "
    "property correctly; it is validated in both directions by the mutant self-test. Generated programs stay inside the documented caller contract (no owner cycles, no re-entrant run, "
    "<= 96 drop-handler generations). Known finding F2 is excluded by construction and counted. Trusted: rustc/std, proptest. Absence of a counter-example in N programs, not a proof.")
VM_TECH = "model-based property testing: proptest byte strings -> program VM on the real Stakker, lock-step reference monitor as oracle, shrunk failures become replay files"
def vm(ref, text):
    return dict(engine="E1 program VM + monitor", ref=ref, technique=VM_TECH, text=text, note=VM_NOTE)
CLAIMED.update({
 "C01": vm("5/C01", "Programs (trees of closures submitting closures through Core::defer, Deferrer::defer, Actor::defer, call!, from running items of every queue, from actor methods and from Drop handlers without Core access; 183 capture shapes 0..4096 B x align 1..128; bursts that grow and chain the queue buffer; runs crossing the 60 s recreation; orderly or abrupt shutdown with up to 96 drop generations) run on the real Stakker; the monitor requires every main-queue entry to be processed in exactly submission order, exactly once, run() to return only at quiescence, captured bytes intact, and after drop(stakker) nothing runs and every pending closure is dropped once."),
 "C02": vm("5/C02", "Programs with actors whose initialisation is immediate, multi-step, failing or never completing, with Ready- and Prep-style calls from outside, other actors, timers, Fwd and Ret in flight across Prep->Ready and across stop/fail/kill/owner-drop at generated queue positions; the monitor requires per-actor call order, holding while Prep, flushing of held calls in order right at Ready before anything else, discarding exactly when the target is a Zombie (is_zombie() true inside the drop) or terminates while holding, Ready methods only while Ready, Prep-style only while Prep."),
 "C03": vm("5/C03", "Programs that stack stop/fail (str, fmt, custom error)/kill! (3 forms)/direct kill/last-owner-drop on actors in every state; is_zombie() is sampled at every item start and after every run and must equal the model; each effective termination must show value drop (never inside one of its methods), discarding of held calls, then exactly one notification whose cause and payload identity equal the first request to take effect."),
 "C04": vm("5/C04", "Programs building ownership DAGs with owned(), anon(), ActorOwnSlab children, owners held in locals, global registers, queued closures, messages and actor state, with bulk clone/drop of non-owning references; the harness counts owning handles itself; termination as Dropped must take the last drop's place in the queue, never happen while an owner exists, whole trees must be Zombie when run() returns, and every live slab parent is queried after every run for len == live children."),
 "C05": vm("5/C05", "Programs moving Ret::new / ret_some_do! / ret_to! / ret_some_to! / prep-style Rets through closures, messages, timers, actor state and global registers, then answering or abandoning them (discarded calls, held calls of terminating Prep actors, deleted timers, Stakker dropped with the Ret in any queue); each handler must be invoked exactly once, Some iff ret() was called, None inside the very drop of the Ret; ret_to! targets get at most one call with the matching argument."),
 "C06": vm("5/C06", "Programs where defer/lazy/idle/timer items submit each other, driven by arbitrary run(now, idle) sequences; at run() return main and lazy queues must be empty, lazy items run in submission order and never while an older main-queue entry is pending, at most one idle item per run, only with idle=true, first, oldest first, and the returned bool equals 'idle items remain'."),
 "C15": dict(engine="E1 program VM + monitor; E2 timer histories", ref="5/C15", technique=VM_TECH + "; plus timer-history leg for the 'timers only when time advances' clause",
    text="Run instants that increase, repeat, go backwards and jump by minutes are interleaved with items of every kind that read Core::now(); every main/lazy/timer/actor item must see exactly max(instants so far), the single idle item the previous or the new value, Stakker::now() after each call equals the model, start_instant() never changes, and (timer leg) no timer callback runs in a run whose instant does not exceed the current time.",
    note=VM_NOTE),
 "C16": vm("5/C16", "C01-C06 style programs plus clone/drop storms on Actor, ActorOwn, Fwd, Deferrer and moves of Ret; every item capture, message and handle must be released exactly once by the end of the case (registries), capture bytes verified on use, and a counting global allocator requires live heap allocations after the case (Stakker, references and harness bookkeeping dropped) to equal those before it, confirmed by re-execution. Memory-unsafety that kills the process is replayed in a fresh process and reported if it reproduces."),
})

CLAIMED.update({
 "C18": dict(engine="E6 feature-matrix differential", ref="5/C18", technique="differential property-based testing: one proptest program stream executed by a persistent process per supported feature set, event-trace hashes compared, shrinking across all processes",
   text="Each generated program (queues, actors, timers, Rets, drop handlers, shutdown) is executed by 20 vrun binaries - the 18 feature sets printed by /repo/run-feature-combinations (regenerated at check time), the default set and logger alone - and the hash and length of the full observable event trace must be identical in all of them; each process also runs the lock-step monitor. A failing program is shrunk against all processes and replayed with the first diverging trace line shown.",
   note="Matrix builds use a reduced shape family (32 closure shapes, dense just below the 1, 2 and 4 KiB buffer sizes). Nothing after the Stakker is gone is part of the compared trace (documented to behave differently per deferrer); the DropStakker operation first releases every handle the harness holds, so live actors and queued terminations are released inside Stakker::drop. Feature sets outside upstream's supported list are not run. Trusted: rustc/std, proptest, the VM/monitor."),
 "C20": dict(engine="E6 feature-matrix differential (logger sets)", ref="5/C20", technique="property-based testing (proptest actor programs) in every feature set that includes logger, with a recording logger and a reference reading of LogFilter as oracle",
   text="Actor programs of C02-C04 shape run in the 7 logger feature sets with a recording logger under generated filters (from_str/all/|/new, changed mid-program): each creation must produce exactly one Open record iff Open is enabled, with a fresh non-zero id equal to actor.id() and the creator's id as parent; each effective termination exactly one Close record iff enabled, with the marker and message matching the StopCause delivered to the notifier; after every run all 9 levels are probed with core.log and log_check against the reference reading.",
   note="The logger callback only records. Trusted: rustc/std, proptest, the harness's reading of the LogFilter documentation."),
})

SCHED_NOTE = ("stakker is rebuilt with --cfg uazu_stakker_verif (hook commit in /repo, add-only) so that the unchanged sync modules run on shuttle's primitives; exploration covers sequentially consistent "
    "interleavings only (Mutex/Condvar trusted as primitives); C11's weak-memory clause is not decided here (see DESIGN.md section 7). Trusted: rustc/std, proptest, shuttle.")
SCHED_TECH = "schedule fuzzing: proptest generates (scenario bytes, schedule bytes) for a byte-driven shuttle scheduler plus seeded random/PCT schedules; history oracles at quiescence; shuttle's deadlock detector catches lost wake-ups; failing pairs shrink together and are replayable"
def sched(ref, text):
    return dict(engine="E4 schedule explorer", ref=ref, technique=SCHED_TECH, text=text, note=SCHED_NOTE)
CLAIMED.update({
 "C11": sched("5/C11", "1-3 worker threads wake 1-4 wakers (same bitmap word / different words / different bitmaps) while the main thread collects with poll_wake() only in response to poll-waker callbacks; a logical clock stamps each wake() and each handler invocation, and at quiescence every wake() that returned must have a handler invocation of its waker stamped after the wake began (spurious calls allowed). For a Waker the main thread still holds at quiescence the serving invocation must be a deleted=false one stamped before quiescence. Each scenario runs under a generated byte schedule and 8-24 seeded random/PCT schedules. The 'publishes the waker's writes' / C11-reordering clause is outside what sequentially consistent exploration can decide."),
 "C12": sched("5/C12", "Worker and main threads drop references to wakers (also by unwinding from a panicking worker) racing with wake() and poll_wake(); main creates new wakers after each observed deleted=true so slots are reused and may wake them; per handler: deleted=true exactly once, as the last call, not before the last reference was dropped, wakes preceding the drop are served, and a new waker's handler never sees the old waker's deleted=true and still gets its own wakes."),
 "C13": sched("5/C13", "1-3 sender threads (1-2 messages, is_closed polls; in about 5% of the scenarios also a burst of 5-1025 messages sent by the main thread behind one wake-up) race with main-thread collection and with the ChannelGuard being dropped before, between or after collections; forwarded messages must be a duplicate-free subset of the accepted ones in per-sender order, equal to all accepted ones when the guard is never dropped (a stranded message shows as missing at quiescence), and after the guard drop returned nothing is forwarded, send returns false and is_closed returns true."),
 "C14": sched("5/C14", "A scripted worker (recv/send/cancel/yield, a run of 5-8 sends in a quarter of the free scripts, panic inserted at any script position) runs inside PipedThread::spawn against a main script of sends, poll responses and the drop; in the echo shape main waits for every reply before dropping, so a lost condvar/waker notification becomes a deadlock; worker-side recv results must be main's sends in order exactly once then None, fwd_recv the worker's sends in order exactly once, fwd_term exactly once, last, with None or exactly the panic text, and after the drop send/cancel report cancellation."),
})

NOT_YET = "check not built yet in this session (planned, see DESIGN.md section 5); not claimed until it exists and passes its sensitivity self-test"

def main():
    checks = []
    for pid in ALL:
        if pid in CLAIMED:
            c = CLAIMED[pid]
            checks.append({
                "property_id": pid,
                "quick_cmd": f"./check {pid} --tier quick",
                "thorough_cmd": f"./check {pid} --tier thorough",
                "evidence_file": f"/verif/evidence/{pid}.json",
                "replay_cmd_template": "./check --replay {path}",
                "engine": c["engine"],
                "level_claimed": {"category": "exploration", "text": c["text"], "design_ref": f"DESIGN.md section {c['ref']}"},
                "level_note": c["note"],
                "technique": c["technique"],
            })
    na = [{"property_id": p, "reason": NOT_YET} for p in ALL if p not in CLAIMED]
    try:
        hooks = subprocess.check_output(["git", "-C", "/repo", "log", "--format=%H %s"], text=True).splitlines()
        hook_commits = [l.split()[0] for l in hooks if l.split(" ",1)[1].startswith("verif-hook")]
    except Exception:
        hook_commits = []
    m = {
        "version": 1,
        "setup_cmd": "./check setup",
        "hooks": {
            "guard": "--cfg uazu_stakker_verif",
            "enable": "rustflags = [\"--cfg\", \"uazu_stakker_verif\"] in /verif/harness/vsched/.cargo/config.toml; the crate is built through the generated manifest /verif/harness/shadow/Cargo.toml ([lib] path = /repo/src/lib.rs, plus shuttle). Only the schedule-exploration checks (C11-C14) use the hooks; every other engine builds the unmodified crate",
            "baseline_off_cmd": "cd /repo && cargo test --workspace --no-fail-fast --offline",
            "source_commits": hook_commits,
            "add_only": True,
        },
        "engines": [
            {"name": "E1 program VM + monitor", "path": "/verif/harness/vcore/src/vm", "serves_properties": ["C01","C02","C03","C04","C05","C06","C15","C16"], "kind_free_text": "proptest byte strings -> program VM driving the real Stakker; lock-step specification-level monitor; counting allocator"},
            {"name": "E7 coverage-guided fuzzing", "path": "/verif/harness/vfuzz", "serves_properties": ["C01","C07","C08","C09","C10","C16","C17","C19"], "kind_free_text": "cargo-fuzz targets prog/timers/queue (libFuzzer + AddressSanitizer) over the same byte decoders with the oracles inside the target; thorough tier only"},
            {"name": "E5 Miri campaign", "path": "/verif/harness/vmiri", "serves_properties": ["C11"], "kind_free_text": "real std threads under cargo +nightly miri run, -Zmiri-many-seeds; plain cell written before wake() and read by the handler"},
            {"name": "E4 schedule explorer", "path": "/verif/harness/vsched", "serves_properties": ["C11","C12","C13","C14"], "kind_free_text": "stakker built through /verif/harness/shadow (lib path /repo/src/lib.rs + shuttle) with --cfg uazu_stakker_verif; byte-driven shuttle Scheduler + random/PCT; scenarios for Waker, Channel, PipedThread"},
            {"name": "E6 feature-matrix differential", "path": "/verif/harness/vcheck/src/matrix.rs", "serves_properties": ["C18","C20"], "kind_free_text": "vrun binary per feature set (built by ./check), persistent servers, trace-hash equality; logger sets additionally checked for Open/Close records"},
            {"name": "E3 queue differential", "path": "/verif/harness/vcore/src/queues.rs", "serves_properties": ["C17"], "kind_free_text": "flat.rs vs boxed.rs side by side: enumerated boundary sweep + proptest op sequences, event-log equality"},
            {"name": "E2 timer histories", "path": "/verif/harness/vcore/src/timers.rs", "serves_properties": ["C07", "C08", "C09", "C10", "C19"], "kind_free_text": "proptest byte strings -> timer histories -> real Stakker in virtual time vs deadline model"},
        ],
        "checks": checks,
        "notes": "All checks are property-based testing / fuzzing (exploration). ./check rebuilds the harness against /repo's working tree before every run. Exit 0 held, 1 + VIOLATION line, 2 inconclusive (hang/tool failure).",
        "not_applicable": na,
    }
    json.dump(m, open("/verif/MANIFEST.json", "w"), indent=1)
    print("claimed:", [c["property_id"] for c in checks])

main()
