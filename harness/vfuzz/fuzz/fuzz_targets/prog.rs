#![no_main]
//! Coverage-guided fuzzing (libFuzzer + AddressSanitizer) of the `vm` engine: the bytes are
//! decoded by the same decoder proptest uses, the semantic oracle runs inside the target, and a
//! violation of the property named in VERIF_FUZZ_PROP (default: any) aborts the run so that
//! libFuzzer saves the input.  Every 20000 executions a small stats file (VERIF_FUZZ_STATS) is
//! rewritten: executions, distinct non-trivial cases for the property, class histogram.
use libfuzzer_sys::fuzz_target;
use std::cell::RefCell;
use std::collections::{BTreeMap, HashSet};

struct Stats {
    evals: u64,
    nt: HashSet<u64>,
    classes: BTreeMap<&'static str, u64>,
}

thread_local! {
    static STATS: RefCell<Stats> = RefCell::new(Stats { evals: 0, nt: HashSet::new(), classes: BTreeMap::new() });
}

fn flush(s: &Stats) {
    if let Ok(path) = std::env::var("VERIF_FUZZ_STATS") {
        let cls: Vec<String> = s.classes.iter().map(|(k, v)| format!("\"{}\": {}", k, v)).collect();
        let _ = std::fs::write(
            path,
            format!("{{\"evaluations\": {}, \"distinct_nontrivial\": {}, \"classes\": {{{}}}}}", s.evals, s.nt.len(), cls.join(", ")),
        );
    }
}

fuzz_target!(|data: &[u8]| {
    let prop = std::env::var("VERIF_FUZZ_PROP").unwrap_or_default();
    let opts = vcore::Opts {
        focus: prop.clone(),
        size: 0,
        ..Default::default()
    };
    let rep = vcore::run_engine("vm", data, &opts);
    STATS.with(|st| {
        let mut s = st.borrow_mut();
        s.evals += 1;
        if rep.nontrivial.iter().any(|p| *p == prop) {
            s.nt.insert(vcore::fnv(data));
        }
        for c in &rep.classes {
            *s.classes.entry(c).or_insert(0) += 1;
        }
        if s.evals % 20000 == 0 {
            flush(&s);
        }
    });
    let hit = if prop.is_empty() {
        rep.violations.first()
    } else {
        rep.violates(&prop)
    };
    if let Some(v) = hit {
        STATS.with(|st| flush(&st.borrow()));
        eprintln!("VIOLATION-IN-TARGET {:?} [{}] {}", v.props, v.rule, v.msg);
        std::process::abort();
    }
});
