#!/usr/bin/env python3
"""Generate /verif/MANIFEST.json from the table below (kept in one place so the
manifest stays valid while checks are added)."""
import json, subprocess

ALL = ["C%02d" % i for i in range(1, 21)]

TIMERS_NOTE = ("Assumes the harness's deadline model (per timer: effective expiry, time it was set, state) is a faithful reading of the "
    "property; trusted base: rustc/std, proptest (RNG, shrinking), virtual time owned by the harness. Evidence is absence of a "
    "counter-example in N generated histories, not a proof.")

CLAIMED = {
 "C07": dict(engine="E2 timer histories", ref="5/C07", technique="property-based testing (proptest over byte-decoded timer histories) against a deadline reference model; shrunk failures become replay files",
   text="Generated add/update/delete/run histories of fixed/Max/Min timers (from top level, main-queue items and timer callbacks; expiries at sub-tick offsets, around 32767 s/65536 s, days ahead, in the past) are executed on the real Stakker in virtual time; every callback must observe Core::now() >= its model effective expiry, inside run() and never inside a timer API call. Exploration is the right level: the property quantifies over histories and instants, and the oracle is exact in this direction.",
   note=TIMERS_NOTE),
 "C08": dict(engine="E2 timer histories", ref="5/C08", technique="property-based testing (proptest, stateful histories) against a deadline reference model; panics inside the crate count as violations",
   text="Same generated histories, weighted to Min/Max updates at/before now and multi-period jumps: after every run no pending timer may be a full resolution step past max(effective expiry, time set); each timer fires at most once and, after the follow-next_expiry drain, exactly once; any panic (harness builds keep overflow checks and debug assertions on) is a violation. Found and fixed F1 (timer_min_upd underflow).",
   note=TIMERS_NOTE),
 "C09": dict(engine="E2 timer histories", ref="5/C09", technique="property-based testing (proptest) with invariant checks after every operation and a bounded drain loop",
   text="After every generated operation next_expiry() is compared with the model: None iff nothing pending, strictly later than now, at most one step after the earliest pending deadline; next_wait/next_wait_max are compared with the documented formula for generated now/maxdur/pending; each history ends by running at next_expiry() until empty under an iteration budget.",
   note=TIMERS_NOTE),
 "C10": dict(engine="E2 timer histories", ref="5/C10", technique="property-based testing (proptest, stateful histories recycling slots) with a three-zone key oracle",
   text="Every key ever issued and the Default key of each kind may be used at any later point of a generated history; answers must be true for a pending not-yet-due timer, false forever after fire/delete, and for timers due in the current run either answer is accepted but binds the future (true => never fires, false => fires in this run). Stale/default keys must leave every other timer's model behaviour intact, which the concurrent C07-C09 oracles enforce.",
   note=TIMERS_NOTE),
 "C19": dict(engine="E2 timer histories", ref="5/C19", technique="property-based testing (proptest) with a pairwise order oracle over each run's firing log",
   text="Generated bursts of short fixed timers sharing or nearly sharing instants are expired by single runs; for each pair firing in one run the one with the smaller deadline (by >= 2 steps) must run first, identical instant+creation time must run in creation order, and main-queue calls queued before run() must start before the first callback.",
   note=TIMERS_NOTE),
 "C17": dict(engine="E3 queue differential", ref="5/C17", technique="differential property-based testing (proptest op sequences + enumerated boundary sweep) of flat.rs against boxed.rs compiled side by side",
   text="The same push/push_box/execute/is_empty/drop sequences, over 183 closure shapes (sizes 0..4096 x alignments 1..128, dense around powers of two) and closures that push onto other queues while executing, are applied to the flat and the boxed queue; complete event logs (closure run with a hash of its captured bytes, un-run drops, is_empty answers) must be identical and captured byte patterns intact. A deterministic sweep places every shape at every 8-byte residual fill level before each growth boundary. Debug assertions on; process crashes are replayed in a fresh process and reported only if they reproduce.",
   note="Trusted: rustc/std, proptest, boxed.rs as the reference implementation. The flat queue is exercised through the same generic entry points Stakker uses (push with monomorphised closures, push_box, execute, Drop). AddressSanitizer coverage comes from the fuzz leg when built (thorough)."),
}

NOT_YET = "check not built yet in this session (planned, see DESIGN.md section 5); not claimed until it exists and passes its sensitivity self-test"

def main():
    checks = []
    for pid in ALL:
        if pid in CLAIMED:
            c = CLAIMED[pid]
            checks.append({
                "property_id": pid,
                "quick_cmd": f"./check {pid} --tier quick",
                "thorough_cmd": f"./check {pid} --tier thorough",
                "evidence_file": f"/verif/evidence/{pid}.json",
                "replay_cmd_template": "./check --replay {path}",
                "engine": c["engine"],
                "level_claimed": {"category": "exploration", "text": c["text"], "design_ref": f"DESIGN.md section {c['ref']}"},
                "level_note": c["note"],
                "technique": c["technique"],
            })
    na = [{"property_id": p, "reason": NOT_YET} for p in ALL if p not in CLAIMED]
    try:
        hooks = subprocess.check_output(["git", "-C", "/repo", "log", "--format=%H %s"], text=True).splitlines()
        hook_commits = [l.split()[0] for l in hooks if " verif-hook:" in l or l.split(" ",1)[1].startswith("verif-hook")]
    except Exception:
        hook_commits = []
    m = {
        "version": 1,
        "setup_cmd": "./check setup",
        "hooks": {
            "guard": "--cfg uazu_stakker_verif",
            "enable": "RUSTFLAGS='--cfg uazu_stakker_verif' when building the shadow manifest /verif/harness/shadow (schedule exploration only); all other engines use the unmodified crate",
            "baseline_off_cmd": "cd /repo && cargo test --workspace --no-fail-fast --offline",
            "source_commits": hook_commits,
            "add_only": True,
        },
        "engines": [
            {"name": "E3 queue differential", "path": "/verif/harness/vcore/src/queues.rs", "serves_properties": ["C17"], "kind_free_text": "flat.rs vs boxed.rs side by side: enumerated boundary sweep + proptest op sequences, event-log equality"},
            {"name": "E2 timer histories", "path": "/verif/harness/vcore/src/timers.rs", "serves_properties": ["C07", "C08", "C09", "C10", "C19"], "kind_free_text": "proptest byte strings -> timer histories -> real Stakker in virtual time vs deadline model"},
        ],
        "checks": checks,
        "notes": "All checks are property-based testing / fuzzing (exploration). ./check rebuilds the harness against /repo's working tree before every run. Exit 0 held, 1 + VIOLATION line, 2 inconclusive (hang/tool failure).",
        "not_applicable": na,
    }
    json.dump(m, open("/verif/MANIFEST.json", "w"), indent=1)
    print("claimed:", [c["property_id"] for c in checks])

main()
