//! Minimal serve/replay binary, built once per supported feature set (E6).
//! Protocol (stdin, one request per line): `<engine> <focus> <size> <flags> <hex bytes>`
//! flags: t = trace, s = strict, m = matrix mode.
//! Answer (one line): `<trace hash hex> <events> <nviolations> [first violation]`, followed by the
//! trace lines and a line `.` when t is set.

use std::io::{BufRead, Write};

fn unhex(s: &str) -> Vec<u8> {
    let s = s.trim();
    (0..s.len() / 2)
        .map(|i| u8::from_str_radix(&s[2 * i..2 * i + 2], 16).unwrap())
        .collect()
}

fn main() {
    let stdin = std::io::stdin();
    let stdout = std::io::stdout();
    let mut out = stdout.lock();
    for line in stdin.lock().lines() {
        let line = match line {
            Ok(l) => l,
            Err(_) => break,
        };
        let p: Vec<&str> = line.split_whitespace().collect();
        if p.len() < 4 {
            continue;
        }
        let flags = p[3];
        let opts = vcore::Opts {
            trace: flags.contains('t'),
            focus: if p[1] == "-" { String::new() } else { p[1].to_string() },
            size: p[2].parse().unwrap_or(0),
            strict: flags.contains('s'),
            matrix: flags.contains('m'),
        };
        let bytes = unhex(p.get(4).copied().unwrap_or(""));
        let rep = vcore::run_engine(p[0], &bytes, &opts);
        let first = rep
            .violations
            .iter()
            .map(|v| format!("{}|[{}] {}", v.props.join("+"), v.rule, v.msg.replace('\n', " ")))
            .collect::<Vec<_>>()
            .join(" ;; ");
        let _ = writeln!(
            out,
            "{:016x} {} {} {} {}",
            rep.trace_hash,
            rep.events,
            rep.violations.len(),
            {
                let mut c: Vec<String> = rep.classes.iter().map(|x| x.to_string()).collect();
                c.extend(rep.nontrivial.iter().map(|p| format!("nt:{}", p)));
                if c.is_empty() { "-".to_string() } else { c.join(",") }
            },
            first
        );
        if opts.trace {
            for l in &rep.trace {
                let _ = writeln!(out, "|{}", l);
            }
            let _ = writeln!(out, ".");
        }
        let _ = out.flush();
    }
}
