//! Named regression scenarios: shrunk failures turned into plain checks that
//! bypass the generators (so they stay valid when a decoder changes).

use crate::timers::{run_script, SOp, STEP};
use crate::vm::{Ctx, Op, Prog};
use crate::CaseReport;

fn prog(bodies: Vec<(Ctx, Vec<Op>)>) -> Prog {
    // body 0 is the empty body, body 1 the top level
    let mut p = Prog::default();
    p.bodies.push(Vec::new());
    p.ctxs.push(Ctx::Item);
    for (c, b) in bodies {
        p.ctxs.push(c);
        p.bodies.push(b);
    }
    p
}

const SEC: i64 = 1_000_000_000;
const MS: i64 = 1_000_000;

pub fn names() -> &'static [&'static str] {
    &[
        "F1-min-upd-past-minimal",
        "F1-min-upd-past",
        "F1-min-upd-past-late",
        "F2a-abrupt-drop-prep-held",
        "F2b-abrupt-drop-slab-cycle",
        "F2b-control-orderly",
    ]
}

pub fn run(name: &str, trace: bool) -> Option<CaseReport> {
    Some(match name {
        // Shrunk by proptest from the first failing C08 case
        "F1-min-upd-past-minimal" => run_script(&[SOp::AddMin(1), SOp::Upd(0, 0), SOp::Run(STEP)], trace),
        // The "expire now" idiom: timer_min_upd(key, cx.now())
        "F1-min-upd-past" => run_script(
            &[
                SOp::AddMin(100 * SEC),
                SOp::Run(SEC),
                SOp::Upd(0, SEC - 5 * MS),
                SOp::Run(SEC + STEP),
                SOp::Active(0),
            ],
            trace,
        ),
        // Without overflow checks the entry used to be parked at a bogus cyclic
        // time; after > 32768 s of uptime the timer then fired hours late
        "F1-min-upd-past-late" => run_script(
            &[
                SOp::Run(40_000 * SEC),
                SOp::AddMin(40_100 * SEC),
                SOp::Upd(0, 40_000 * SEC),
                SOp::Run(40_000 * SEC + 2 * STEP),
                SOp::Active(0),
                SOp::RunNext,
            ],
            trace,
        ),
        // F2a: an actor still in Prep that holds a queued call when the Stakker is dropped.
        // actor_new!; a Ret::new; call!([a], m(..)) carrying the Ret; run; drop(stakker); drop owner
        "F2a-abrupt-drop-prep-held" => crate::vm::exec::run_prog(
            prog(vec![
                (
                    Ctx::Top,
                    vec![
                        Op::NewActor { style: 1, shape: 0, body: 0, dest: 0 },
                        Op::MakeRet { kind: 0, a: 0, shape: 0, body: 0 },
                        Op::Call { a: 0, via: 0, shape: 16, body: 0, nbag: 1 },
                        Op::Run { dt: 1, idle: false, back: false },
                        Op::DropStakker,
                    ],
                ),
            ]),
            trace,
            true,
        ),
        // F2b: a live parent with a child created by ActorOwnSlab::add when the Stakker is dropped
        "F2b-abrupt-drop-slab-cycle" => crate::vm::exec::run_prog(
            prog(vec![
                (
                    Ctx::Top,
                    vec![
                        Op::NewActor { style: 0, shape: 0, body: 2, dest: 0 },
                        Op::Run { dt: 1, idle: false, back: false },
                        Op::Call { a: 0, via: 0, shape: 16, body: 3, nbag: 0 },
                        Op::Run { dt: 1, idle: false, back: false },
                        Op::DropStakker,
                    ],
                ),
                (Ctx::Prep, vec![Op::ReturnSome]),
                (Ctx::Ready, vec![Op::NewActor { style: 2, shape: 0, body: 2, dest: 0 }]),
            ]),
            trace,
            true,
        ),
        // the same program with an orderly shutdown is clean
        "F2b-control-orderly" => crate::vm::exec::run_prog(
            prog(vec![
                (
                    Ctx::Top,
                    vec![
                        Op::NewActor { style: 0, shape: 0, body: 2, dest: 0 },
                        Op::Run { dt: 1, idle: false, back: false },
                        Op::Call { a: 0, via: 0, shape: 16, body: 3, nbag: 0 },
                        Op::Run { dt: 1, idle: false, back: false },
                    ],
                ),
                (Ctx::Prep, vec![Op::ReturnSome]),
                (Ctx::Ready, vec![Op::NewActor { style: 2, shape: 0, body: 2, dest: 0 }]),
            ]),
            trace,
            true,
        ),
        _ => return None,
    })
}
