//! Verification harness core for uazu/stakker: byte-string decoders,
//! engines (timers, queue differential, program VM + monitor) and their
//! oracles.  Every case is `decode(bytes)`; proptest, libFuzzer and the
//! replay path all feed the same decoders.

pub mod alloc;
pub mod cur;
pub mod report;
#[cfg(not(feature = "fewshapes"))]
pub mod queues;
pub mod scenarios;
pub mod shapes;
pub mod timers;
pub mod vm;

pub use cur::Cur;
pub use report::{CaseReport, Opts, Violation};

/// Engines addressable by name (used by drivers and replay files).
pub fn run_engine(engine: &str, bytes: &[u8], opts: &Opts) -> CaseReport {
    match engine {
        "timers" => timers::run_case(bytes, opts),
        #[cfg(not(feature = "fewshapes"))]
        "queues" => queues::run_case(bytes, opts),
        "vm" => vm::exec::run_case(bytes, opts),
        "scenario" => {
            let name = String::from_utf8_lossy(bytes).to_string();
            let mut r = scenarios::run(&name, opts.trace)
                .unwrap_or_else(|| panic!("unknown scenario {}", name));
            r.trace.insert(0, format!("scenario {}", name));
            r
        }
        _ => panic!("unknown engine {}", engine),
    }
}

/// FNV-1a, used for case hashes (never for anything security relevant)
pub fn fnv(bytes: &[u8]) -> u64 {
    let mut h: u64 = 0xcbf29ce484222325;
    for b in bytes {
        h ^= *b as u64;
        h = h.wrapping_mul(0x100000001b3);
    }
    h
}

pub mod pcatch {
    //! Panic capture: convert a panic inside the code under test into a message.
    use std::cell::RefCell;
    use std::panic;
    use std::sync::Once;

    thread_local! {
        static LAST: RefCell<Option<String>> = const { RefCell::new(None) };
        static QUIET: RefCell<bool> = const { RefCell::new(false) };
    }
    static HOOK: Once = Once::new();

    fn install() {
        HOOK.call_once(|| {
            let prev = panic::take_hook();
            panic::set_hook(Box::new(move |info| {
                let quiet = QUIET.with(|q| *q.borrow());
                if quiet {
                    let msg = if let Some(s) = info.payload().downcast_ref::<&str>() {
                        s.to_string()
                    } else if let Some(s) = info.payload().downcast_ref::<String>() {
                        s.clone()
                    } else {
                        "panic with non-string payload".to_string()
                    };
                    let loc = info
                        .location()
                        .map(|l| format!(" at {}:{}", l.file(), l.line()))
                        .unwrap_or_default();
                    LAST.with(|l| *l.borrow_mut() = Some(format!("{}{}", msg, loc)));
                } else {
                    prev(info);
                }
            }));
        });
    }

    /// Run `f`, returning Err(panic message) if it panicked.
    pub fn catch<R>(f: impl FnOnce() -> R) -> Result<R, String> {
        install();
        let was = QUIET.with(|q| q.replace(true));
        let r = panic::catch_unwind(panic::AssertUnwindSafe(f));
        QUIET.with(|q| *q.borrow_mut() = was);
        match r {
            Ok(v) => Ok(v),
            Err(_) => Err(LAST
                .with(|l| l.borrow_mut().take())
                .unwrap_or_else(|| "panic".to_string())),
        }
    }
}
