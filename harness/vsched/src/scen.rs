//! Scenarios: waker (C11, C12), channel (C13), piped thread (C14).

use crate::{set_outcome, Outcome};
use shuttle::sync::{Arc, Condvar, Mutex};
use shuttle::thread;
use stakker::sync::{Channel, ChannelGuard};
use stakker::{Fwd, PipedLink, PipedThread, Stakker, Waker};
use std::cell::RefCell;
use std::rc::Rc;
use std::sync::atomic::{AtomicUsize, Ordering};
use std::time::Instant;

/// Logical clock.  A plain std atomic: executions are sequential on one OS thread, and a
/// std atomic adds no scheduling point.
static CLOCK: AtomicUsize = AtomicUsize::new(0);
fn tick() -> usize {
    CLOCK.fetch_add(1, Ordering::Relaxed)
}

struct Cur<'a> {
    b: &'a [u8],
    p: usize,
}
impl<'a> Cur<'a> {
    fn u8(&mut self) -> u8 {
        let v = self.b.get(self.p).copied().unwrap_or(0);
        self.p += 1;
        v
    }
    fn pick(&mut self, n: usize) -> usize {
        (self.u8() as usize * n) >> 8
    }
    fn chance(&mut self, num: u32) -> bool {
        (self.u8() as u32) >= 256 - num.min(256)
    }
}

/// The I/O poller stand-in: the poll-waker callback bumps `pending`, the main thread sleeps on
/// the condvar until there is something to respond to (like an event loop blocked in poll())
struct Poll {
    m: Mutex<(usize, usize)>, // (pending poll-wakes, workers finished)
    cv: Condvar,
}

impl Poll {
    fn new() -> Arc<Self> {
        Arc::new(Self { m: Mutex::new((0, 0)), cv: Condvar::new() })
    }
    fn install(self: &Arc<Self>, s: &mut Stakker) {
        let p = self.clone();
        s.set_poll_waker(move || {
            let mut g = p.m.lock().unwrap();
            g.0 += 1;
            drop(g);
            p.cv.notify_all();
        });
    }
    fn worker_done(&self) {
        let mut g = self.m.lock().unwrap();
        g.1 += 1;
        drop(g);
        self.cv.notify_all();
    }
    /// Respond to one pending poll-wake if there is one; returns whether it did
    fn respond(&self, s: &mut Stakker, now: Instant) -> bool {
        let mut g = self.m.lock().unwrap();
        if g.0 > 0 {
            g.0 -= 1;
            drop(g);
            s.poll_wake();
            s.run(now, false);
            true
        } else {
            false
        }
    }
    /// Block until a poll-wake is pending (-> true) or `until(workers_done)` holds with nothing pending (-> false)
    fn wait(&self, until: impl Fn(usize) -> bool) -> bool {
        let mut g = self.m.lock().unwrap();
        loop {
            if g.0 > 0 {
                return true;
            }
            if until(g.1) {
                return false;
            }
            g = self.cv.wait(g).unwrap();
        }
    }
}

pub fn run_scenario(prop: &str, bytes: &[u8], trace: bool) {
    match prop {
        "C11" | "C12" => waker_scenario(prop, bytes, trace),
        "C13" => channel_scenario(bytes, trace),
        "C14" => piped_scenario(bytes, trace),
        _ => panic!("no scenario for {}", prop),
    }
}

// ---------------------------------------------------------------------------
// Waker (C11, C12)

#[derive(Clone, Copy, Debug)]
enum WOp {
    Wake(usize),
    DropRef(usize),
    Yield,
    Panic,
    /// drop every reference this thread still holds, one after the other (a burst of drops)
    DropAll,
}

#[derive(Clone, Copy, Debug)]
struct WRec {
    kind: u8, // 0 wake, 1 drop of a reference
    w: usize,
    begin: usize,
}

fn waker_scenario(prop: &str, bytes: &[u8], trace: bool) {
    let mut c = Cur { b: bytes, p: 0 };
    let mut tr: Vec<String> = Vec::new();
    let placement = match c.u8() {
        0..=139 => 0,   // same bitmap word
        140..=247 => 1, // different words
        _ => 2,         // different bitmaps
    };
    let nw = 1 + c.pick(if prop == "C12" { 10 } else { 4 });
    let nthreads = 1 + c.pick(3);
    let mut scripts: Vec<Vec<WOp>> = Vec::new();
    for _ in 0..nthreads {
        let n = 1 + c.pick(if prop == "C12" { 8 } else { 5 });
        let mut s = Vec::new();
        for _ in 0..n {
            let w = c.pick(nw);
            if prop == "C12" && c.chance(24) {
                s.push(WOp::DropAll);
                continue;
            }
            s.push(match c.pick(if prop == "C12" { 10 } else { 8 }) {
                0..=4 => WOp::Wake(w),
                5 => WOp::Yield,
                6 | 7 => WOp::Wake((w + 1) % nw),
                8 => WOp::DropRef(w),
                _ => {
                    if c.chance(100) {
                        WOp::Panic
                    } else {
                        WOp::DropRef(w)
                    }
                }
            });
        }
        scripts.push(s);
    }
    let recreate = prop == "C12" && c.chance(140);
    let slow_handlers = c.chance(128);
    let main_wakes_new = c.chance(128);
    let main_holds = c.pick(nw + 1); // main keeps a reference to the first `main_holds` wakers for a while
    let main_drop_after = c.pick(4);

    let now = Instant::now();
    let mut stakker = Stakker::new(now);
    let s = &mut stakker;
    let poll = Poll::new();
    poll.install(s);
    // (handler id, deleted, stamp)
    let log: Rc<RefCell<Vec<(usize, bool, usize)>>> = Rc::new(RefCell::new(Vec::new()));
    let mut next_hid = 0usize;
    let mut mk = |s: &mut Stakker, next_hid: &mut usize| -> (usize, Waker) {
        let hid = *next_hid;
        *next_hid += 1;
        let log = log.clone();
        let w = s.waker(move |_s, deleted| {
            log.borrow_mut().push((hid, deleted, tick()));
            // a handler that takes a while (here: a scheduling point), so that other threads can
            // act while the main thread is in the middle of a collection
            if slow_handlers {
                thread::yield_now();
            }
        });
        (hid, w)
    };
    let mut fillers: Vec<Waker> = Vec::new();
    let mut wakers: Vec<Arc<Waker>> = Vec::new();
    let mut hids: Vec<usize> = Vec::new();
    for i in 0..nw {
        if i > 0 {
            let nfill = match placement {
                0 => 0,
                1 => 64,
                _ => {
                    if i == 1 {
                        4100
                    } else {
                        0
                    }
                }
            };
            for _ in 0..nfill {
                let (_h, f) = mk(s, &mut next_hid);
                fillers.push(f);
            }
        }
        let (h, w) = mk(s, &mut next_hid);
        hids.push(h);
        wakers.push(Arc::new(w));
    }
    if trace {
        tr.push(format!(
            "{} waker(s), placement {}, {} worker thread(s); main holds a reference to the first {} until {} poll(s) were answered",
            nw,
            ["same bitmap word", "different words (64 apart)", "different bitmaps (4100 apart)"][placement],
            nthreads,
            main_holds,
            main_drop_after
        ));
        for (i, sc) in scripts.iter().enumerate() {
            tr.push(format!("thread {}: {:?}", i, sc));
        }
    }
    // spawn workers
    let mut handles = Vec::new();
    for sc in scripts.iter().cloned() {
        let mut mine: Vec<Option<Arc<Waker>>> = wakers.iter().map(|w| Some(w.clone())).collect();
        let poll = poll.clone();
        handles.push(thread::spawn(move || {
            let mut recs: Vec<WRec> = Vec::new();
            let r = std::panic::catch_unwind(std::panic::AssertUnwindSafe(|| {
                for op in sc {
                    match op {
                        WOp::Wake(w) => {
                            if let Some(wk) = &mine[w] {
                                let begin = tick();
                                wk.wake();
                                recs.push(WRec { kind: 0, w, begin });
                            }
                        }
                        WOp::DropRef(w) => {
                            if let Some(wk) = mine[w].take() {
                                recs.push(WRec { kind: 1, w, begin: tick() });
                                drop(wk);
                            }
                        }
                        WOp::Yield => thread::yield_now(),
                        WOp::DropAll => {
                            for w in 0..mine.len() {
                                if let Some(wk) = mine[w].take() {
                                    recs.push(WRec { kind: 1, w, begin: tick() });
                                    drop(wk);
                                }
                            }
                        }
                        WOp::Panic => {
                            // unwinding drops every reference this thread still holds
                            for (w, m) in mine.iter().enumerate() {
                                if m.is_some() {
                                    recs.push(WRec { kind: 1, w, begin: tick() });
                                }
                            }
                            std::panic::resume_unwind(Box::new("scripted panic"));
                        }
                    }
                }
            }));
            let _ = r;
            for (w, m) in mine.iter_mut().enumerate() {
                if let Some(wk) = m.take() {
                    recs.push(WRec { kind: 1, w, begin: tick() });
                    drop(wk);
                }
            }
            poll.worker_done();
            recs
        }));
    }
    // main keeps some references, the rest are now only held by workers
    let mut main_refs: Vec<Option<Arc<Waker>>> = Vec::new();
    for (i, w) in wakers.drain(..).enumerate() {
        main_refs.push(if i < main_holds { Some(w) } else { None });
    }
    let mut main_recs: Vec<WRec> = Vec::new();
    let mut answered = 0usize;
    let mut new_wakers: Vec<(usize, Waker)> = Vec::new();
    let mut seen_deleted = 0usize;
    // event loop: poll_wake() only in response to poll-waker callbacks
    loop {
        let n = nthreads;
        if !poll.wait(|done| done >= n) {
            break;
        }
        poll.respond(s, now);
        answered += 1;
        if answered == main_drop_after + 1 {
            for (w, m) in main_refs.iter_mut().enumerate() {
                if let Some(wk) = m.take() {
                    main_recs.push(WRec { kind: 1, w, begin: tick() });
                    drop(wk);
                }
            }
        }
        let deleted_now = log.borrow().iter().filter(|e| e.1).count();
        if recreate && deleted_now > seen_deleted && new_wakers.len() < 3 {
            // a freed slot gets reused by a new waker with a new handler
            seen_deleted = deleted_now;
            let (h, w) = mk(s, &mut next_hid);
            if main_wakes_new {
                let begin = tick();
                w.wake();
                main_recs.push(WRec { kind: 0, w: 1000 + h, begin });
            }
            new_wakers.push((h, w));
        }
    }
    // quiescence: every worker has finished (so every wake() has returned) and every poll-wake
    // was answered; the wakers main still holds are alive, so nothing but a poll_wake() made in
    // response can have run their handlers so far
    let quiescent_at = tick();
    let alive_at_quiescence: Vec<usize> = main_refs.iter().enumerate().filter(|(_, m)| m.is_some()).map(|(w, _)| w).collect();
    let mut recs: Vec<WRec> = Vec::new();
    for h in handles {
        recs.extend(h.join().unwrap());
    }
    // main drops whatever it still holds, then answers the remaining poll-wakes
    for (w, m) in main_refs.iter_mut().enumerate() {
        if let Some(wk) = m.take() {
            main_recs.push(WRec { kind: 1, w, begin: tick() });
            drop(wk);
        }
    }
    let new_hids: Vec<usize> = new_wakers.iter().map(|x| x.0).collect();
    for (h, w) in new_wakers.drain(..) {
        main_recs.push(WRec { kind: 1, w: 1000 + h, begin: tick() });
        drop(w);
    }
    let nfill = fillers.len();
    drop(fillers);
    while poll.respond(s, now) {}
    recs.extend(main_recs);
    let log = log.borrow().clone();
    drop(stakker);

    // ---- oracle
    let hid_of = |w: usize| if w >= 1000 { w - 1000 } else { hids[w] };
    let mut violation: Option<String> = None;
    if trace {
        for r in &recs {
            tr.push(format!("{} waker#{} (handler {}) at clock {}", if r.kind == 0 { "wake()" } else { "drop of a reference to" }, r.w, hid_of(r.w), r.begin));
        }
        for e in &log {
            if !(e.0 < next_hid && !hids.contains(&e.0) && !new_hids.contains(&e.0)) {
                tr.push(format!("handler {} invoked (deleted={}) at clock {}", e.0, e.1, e.2));
            }
        }
    }
    // C11: every wake() that returned has a handler invocation after it began
    for r in recs.iter().filter(|r| r.kind == 0) {
        let hid = hid_of(r.w);
        if !log.iter().any(|e| e.0 == hid && e.2 > r.begin) {
            let m = format!(
                "wake() on waker#{} began at clock {} and returned, but its handler (id {}) was never invoked afterwards although every poll-wake was answered",
                r.w, r.begin, hid
            );
            if prop == "C11" || r.w >= 1000 {
                violation = Some(m);
            } else if violation.is_none() && prop == "C12" {
                // a wake that preceded the drop must be served by a call, or by the final deleted=true call
                violation = Some(format!("{} (C12: delivery of a wake() that preceded the drop)", m));
            }
        }
    }
    // C11, wakers still alive at quiescence: the handler ran in response to the wake itself, not
    // only as the deleted=true call of the final clean-up (which can ride on another bitmap's drop signal)
    let mut served_alive = false;
    for r in recs.iter().filter(|r| r.kind == 0 && r.w < 1000 && alive_at_quiescence.contains(&r.w)) {
        let hid = hid_of(r.w);
        served_alive = true;
        if !log.iter().any(|e| e.0 == hid && !e.1 && e.2 > r.begin && e.2 < quiescent_at) {
            violation = Some(format!(
                "wake() on waker#{} began at clock {} and returned, every poll-wake was answered and the Waker is still alive at clock {}, but its handler (id {}) was not run in between",
                r.w, r.begin, quiescent_at, hid
            ));
        }
    }
    if prop == "C12" {
        // every handler ever registered, fillers included (their Wakers are all dropped by the end;
        // this covers the reserved first slot of each further bitmap)
        let all: Vec<usize> = (0..next_hid).collect();
        for hid in all {
            let entries: Vec<&(usize, bool, usize)> = log.iter().filter(|e| e.0 == hid).collect();
            let ndel = entries.iter().filter(|e| e.1).count();
            let last_drop_begin = recs
                .iter()
                .filter(|r| r.kind == 1 && (r.w >= 1000 || r.w < hids.len()) && hid_of(r.w) == hid)
                .map(|r| r.begin)
                .max();
            if ndel != 1 {
                violation = Some(format!("handler {} received deleted=true {} time(s) although its Waker was dropped exactly once", hid, ndel));
            } else {
                let dpos = entries.iter().position(|e| e.1).unwrap();
                if dpos != entries.len() - 1 {
                    violation = Some(format!("handler {} was invoked again after its deleted=true call", hid));
                }
                if let Some(b) = last_drop_begin {
                    if entries[dpos].2 < b {
                        violation = Some(format!(
                            "handler {} received deleted=true at clock {} while a reference to its Waker was still alive (last reference dropped after clock {})",
                            hid, entries[dpos].2, b
                        ));
                    }
                }
            }
        }
    }
    let waking_threads = scripts.iter().filter(|s| s.iter().any(|o| matches!(o, WOp::Wake(_)))).count();
    let drops_mid = scripts.iter().any(|s| s.iter().any(|o| matches!(o, WOp::DropRef(_) | WOp::Panic | WOp::DropAll)));
    let mut classes: Vec<&'static str> = vec![["placement:same-word", "placement:different-words", "placement:different-bitmaps"][placement]];
    if scripts.iter().any(|s| s.iter().any(|o| matches!(o, WOp::Panic))) {
        classes.push("drop-by-unwinding");
    }
    if !new_hids.is_empty() {
        classes.push("slot-reused-by-new-waker");
    }
    if served_alive {
        classes.push("wake-on-waker-alive-at-quiescence");
        if placement == 2 && recs.iter().any(|r| r.kind == 0 && r.w >= 1 && r.w < 1000 && alive_at_quiescence.contains(&r.w)) {
            classes.push("wake-on-live-waker-of-a-further-bitmap");
        }
    }
    let _ = nfill;
    set_outcome(Outcome {
        violation,
        nontrivial: if prop == "C11" { waking_threads >= 2 } else { drops_mid || !new_hids.is_empty() },
        classes,
        trace: tr,
    });
}

// ---------------------------------------------------------------------------
// Channel (C13)

#[derive(Clone, Copy, Debug)]
enum COp {
    Send,
    IsClosed,
    Yield,
}

fn channel_scenario(bytes: &[u8], trace: bool) {
    let mut c = Cur { b: bytes, p: 0 };
    let mut tr: Vec<String> = Vec::new();
    let nsend = 1 + c.pick(3);
    let mut scripts: Vec<Vec<COp>> = Vec::new();
    for _ in 0..nsend {
        let nmsg = 1 + c.pick(2);
        let mut s = Vec::new();
        let mut sent = 0;
        while sent < nmsg {
            match c.pick(6) {
                0..=3 => {
                    s.push(COp::Send);
                    sent += 1;
                }
                4 => s.push(COp::IsClosed),
                _ => s.push(COp::Yield),
            }
            if s.len() > 6 {
                break;
            }
        }
        if c.chance(90) {
            s.push(COp::IsClosed);
        }
        scripts.push(s);
    }
    // guard drop: 0 = only at the very end, k = after k poll-wakes were answered
    let guard_after = match c.pick(4) {
        0 => 0,
        k => k,
    };
    let guard_first = c.chance(24); // drop the guard before anything is collected
    // drop the guard from inside the handler of another Waker (created first, so it runs first
    // in a poll-wake batch): the channel's own handler may then still be due in that batch
    let guard_via_handler = !guard_first && guard_after != 0 && c.chance(80);
    // a burst sent from the main thread itself before anything is collected: it all accumulates
    // behind one wake-up (sender id `nsend`)
    let burst: usize = if c.chance(12) { [5, 70, 257, 300, 1025][c.pick(5)] } else { 0 };

    let now = Instant::now();
    let mut stakker = Stakker::new(now);
    let s = &mut stakker;
    let poll = Poll::new();
    poll.install(s);
    let recv: Rc<RefCell<Vec<((usize, usize), usize)>>> = Rc::new(RefCell::new(Vec::new()));
    let recv2 = recv.clone();
    let fwd: Fwd<(usize, usize)> = Fwd::new(move |m| recv2.borrow_mut().push((m, tick())));
    let held: Rc<RefCell<Option<ChannelGuard>>> = Rc::new(RefCell::new(None));
    let hstamp: Rc<RefCell<(Option<usize>, Option<usize>)>> = Rc::new(RefCell::new((None, None)));
    let aux = if guard_via_handler {
        let held = held.clone();
        let hstamp = hstamp.clone();
        Some(s.waker(move |_, deleted| {
            if !deleted {
                if let Some(g) = held.borrow_mut().take() {
                    let b = tick();
                    drop(g);
                    *hstamp.borrow_mut() = (Some(b), Some(tick()));
                }
            }
        }))
    } else {
        None
    };
    let (chan, guard): (Channel<(usize, usize)>, ChannelGuard) = Channel::new(s, fwd);
    let mut guard = Some(guard);
    if trace {
        tr.push(format!("{} sender(s); guard dropped {}", nsend, if guard_first { "before anything is collected".to_string() } else if guard_after == 0 { "at the end".into() } else { format!("after {} poll-wake(s) were answered", guard_after) }));
        for (i, sc) in scripts.iter().enumerate() {
            tr.push(format!("sender {}: {:?}", i, sc));
        }
    }
    // (sender, seq, accepted, begin, end) and (sender, is_closed answer, stamp)
    type SendRec = (usize, usize, bool, usize, usize);
    let mut handles = Vec::new();
    for (i, sc) in scripts.iter().cloned().enumerate() {
        let ch = chan.clone();
        let poll = poll.clone();
        handles.push(thread::spawn(move || {
            let mut sends: Vec<SendRec> = Vec::new();
            let mut closed: Vec<(usize, bool, usize)> = Vec::new();
            let mut seq = 0;
            for op in sc {
                match op {
                    COp::Send => {
                        let b = tick();
                        let ok = ch.send((i, seq));
                        sends.push((i, seq, ok, b, tick()));
                        seq += 1;
                    }
                    COp::IsClosed => {
                        let b = tick();
                        closed.push((i, ch.is_closed(), b));
                    }
                    COp::Yield => thread::yield_now(),
                }
            }
            drop(ch);
            poll.worker_done();
            (sends, closed)
        }));
    }
    let mut burst_sends: Vec<SendRec> = Vec::new();
    for seq in 0..burst {
        let b = tick();
        let ok = chan.send((nsend, seq));
        burst_sends.push((nsend, seq, ok, b, tick()));
    }
    drop(chan);
    let mut g_begin: Option<usize> = None;
    let mut g_end: Option<usize> = None;
    let mut drop_guard = |guard: &mut Option<ChannelGuard>, g_begin: &mut Option<usize>, g_end: &mut Option<usize>| {
        if let Some(g) = guard.take() {
            *g_begin = Some(tick());
            drop(g);
            *g_end = Some(tick());
        }
    };
    if guard_first {
        drop_guard(&mut guard, &mut g_begin, &mut g_end);
    }
    let mut answered = 0;
    loop {
        let n = nsend;
        if !poll.wait(|done| done >= n) {
            break;
        }
        poll.respond(s, now);
        answered += 1;
        if guard_after != 0 && answered == guard_after {
            match &aux {
                Some(w) => {
                    // hand the guard to the other handler and wake it from this thread
                    if let Some(g) = guard.take() {
                        *held.borrow_mut() = Some(g);
                        w.wake();
                    }
                }
                None => drop_guard(&mut guard, &mut g_begin, &mut g_end),
            }
        }
    }
    let mut sends: Vec<SendRec> = burst_sends;
    let mut closed = Vec::new();
    for h in handles {
        let (a, b) = h.join().unwrap();
        sends.extend(a);
        closed.extend(b);
    }
    while poll.respond(s, now) {}
    let mut via_handler = false;
    if aux.is_some() {
        if let (Some(b), Some(e)) = *hstamp.borrow() {
            g_begin = Some(b);
            g_end = Some(e);
            via_handler = true;
        } else if let Some(g) = held.borrow_mut().take() {
            // the other handler never ran (cannot happen when every poll-wake is answered)
            guard = Some(g);
        }
    }
    let never_dropped = guard.is_some();
    let received = recv.borrow().clone();
    // now close for real and release everything
    drop_guard(&mut guard, &mut g_begin, &mut g_end);
    drop(aux);
    while poll.respond(s, now) {}
    drop(stakker);

    let mut violation: Option<String> = None;
    if trace {
        for r in &sends {
            if r.0 == nsend && r.1 >= 2 && r.1 + 2 < burst {
                continue; // the middle of the main thread's burst
            }
            tr.push(format!("sender {}{} send(#{}) -> {} (clock {}..{})", r.0, if r.0 == nsend { " (main thread, burst)" } else { "" }, r.1, r.2, r.3, r.4));
        }
        for r in &closed {
            tr.push(format!("sender {} is_closed() -> {} (clock {})", r.0, r.1, r.2));
        }
        tr.push(format!("guard dropped at clock {:?}..{:?}", g_begin, g_end));
        for r in &received {
            if (r.0).0 == nsend && (r.0).1 >= 2 && (r.0).1 + 2 < burst {
                continue;
            }
            tr.push(format!("forwarded {:?} at clock {}", r.0, r.1));
        }
    }
    let accepted: std::collections::HashSet<(usize, usize)> = sends.iter().filter(|r| r.2).map(|r| (r.0, r.1)).collect();
    let mut seen: std::collections::HashSet<(usize, usize)> = std::collections::HashSet::new();
    for (m, _) in received.iter() {
        if !seen.insert(*m) {
            violation = Some(format!("message {:?} was forwarded twice", m));
        }
        if !accepted.contains(m) {
            violation = Some(format!("message {:?} was forwarded although send() did not return true for it", m));
        }
    }
    for snd in 0..=nsend {
        let seqs: Vec<usize> = received.iter().filter(|x| (x.0).0 == snd).map(|x| (x.0).1).collect();
        if seqs.windows(2).any(|w| w[0] >= w[1]) {
            violation = Some(format!("messages of sender {} were forwarded out of order: {:?}", snd, seqs));
        }
    }
    if never_dropped {
        for r in sends.iter().filter(|r| r.2) {
            if !seen.contains(&(r.0, r.1)) {
                violation = Some(format!(
                    "message ({}, {}) was accepted by send() and the guard was never dropped, but it was never forwarded although every poll-wake was answered (left queued without a wake-up)",
                    r.0, r.1
                ));
            }
        }
    }
    if let Some(ge) = g_end {
        if never_dropped {
            // the guard was only dropped after the observations above
        } else {
            for x in &received {
                if x.1 > ge {
                    violation = Some(format!("message {:?} was forwarded at clock {} after the guard drop had returned (clock {})", x.0, x.1, ge));
                }
            }
            for r in &sends {
                if r.3 > ge && r.2 {
                    violation = Some(format!("send() of ({}, {}) began after the guard drop had returned and still returned true", r.0, r.1));
                }
            }
            for r in &closed {
                if r.2 > ge && !r.1 {
                    violation = Some(format!("is_closed() answered false at clock {} after the guard drop had returned (clock {})", r.2, ge));
                }
            }
        }
    }
    if let Some(gb) = g_begin {
        if !never_dropped {
            for r in &closed {
                if r.2 < gb && r.1 {
                    // stamp taken before the call; the call itself may have run after gb: only flag
                    // when even the end of the scenario ordering makes it impossible
                    let _ = r;
                }
            }
        }
    }
    let mut classes: Vec<&'static str> = Vec::new();
    if !never_dropped {
        classes.push("guard-dropped-while-senders-run");
    }
    if sends.iter().any(|r| !r.2) {
        classes.push("send-rejected");
    }
    if via_handler {
        classes.push("guard-dropped-inside-another-wake-handler");
    }
    if burst > 256 {
        classes.push("burst-of-more-than-256-behind-one-wake-up");
    } else if burst > 0 {
        classes.push("burst-behind-one-wake-up");
    }
    set_outcome(Outcome {
        violation,
        nontrivial: nsend >= 2 || !never_dropped,
        classes,
        trace: tr,
    });
}

// ---------------------------------------------------------------------------
// PipedThread (C14)

#[derive(Clone, Copy, Debug)]
enum POp {
    Recv,
    Send,
    Cancel,
    Panic(usize),
    Yield,
}

const PANIC_TEXTS: [&str; 3] = ["boom", "worker failed: 42", ""];

fn piped_scenario(bytes: &[u8], trace: bool) {
    let mut c = Cur { b: bytes, p: 0 };
    let mut tr: Vec<String> = Vec::new();
    // shape 0: echo worker, main waits for all replies before dropping (a lost condvar or wake
    // notification cannot be masked by the final cancel); shape 1: free scripts, main never blocks
    // except at the end
    let echo = c.chance(110);
    let mut wscript: Vec<POp> = Vec::new();
    let k = 1 + c.pick(3);
    if echo {
        for _ in 0..k {
            wscript.push(POp::Recv);
            if c.chance(40) {
                wscript.push(POp::Yield);
            }
            wscript.push(POp::Send);
        }
        match c.pick(4) {
            0 => wscript.push(POp::Panic(c.pick(3))),
            1 => wscript.push(POp::Recv),
            _ => {}
        }
    } else {
        let n = c.pick(6);
        for _ in 0..n {
            wscript.push(match c.pick(8) {
                0..=2 => POp::Recv,
                3..=5 => POp::Send,
                6 => POp::Cancel,
                _ => POp::Yield,
            });
        }
        // a run of 5-8 sends in a row (a batch large enough for the collected buffer to outgrow
        // a fresh one), at any position of the script
        if c.chance(70) {
            let pos = c.pick(wscript.len() + 1);
            for _ in 0..5 + c.pick(4) {
                wscript.insert(pos, POp::Send);
            }
        }
        // panic at any point of the script: position enumerated by the generator
        if c.chance(100) {
            let pos = c.pick(wscript.len() + 1);
            wscript.insert(pos, POp::Panic(c.pick(3)));
            wscript.truncate(pos + 1);
        }
    }
    let main_sends = if echo { k } else { c.pick(4) };
    let main_yields = c.pick(3);

    let now = Instant::now();
    let mut stakker = Stakker::new(now);
    let s = &mut stakker;
    let poll = Poll::new();
    poll.install(s);
    // events on the main thread: (kind 0 = fwd_recv value, 1 = fwd_term, payload, stamp)
    let got: Rc<RefCell<Vec<(u8, usize, Option<String>, usize)>>> = Rc::new(RefCell::new(Vec::new()));
    let g1 = got.clone();
    let g2 = got.clone();
    let fwd_recv: Fwd<usize> = Fwd::new(move |v| g1.borrow_mut().push((0, v, None, tick())));
    let fwd_term: Fwd<Option<String>> = Fwd::new(move |p| g2.borrow_mut().push((1, 0, p, tick())));
    // worker observations: (op index, kind, value) kind: 0 recv Some(v), 1 recv None, 2 send -> ok(v=1)/cancelled(v=0), 3 cancel() answer
    let wlog: std::sync::Arc<std::sync::Mutex<Vec<(u8, usize, usize)>>> = std::sync::Arc::new(std::sync::Mutex::new(Vec::new()));
    let wlog2 = wlog.clone();
    let ws = wscript.clone();
    let poll2 = poll.clone();
    if trace {
        tr.push(format!("worker script ({}): {:?}", if echo { "echo, main waits for replies" } else { "free" }, wscript));
        tr.push(format!("main sends {} message(s), then {}", main_sends, if echo { "waits for all replies, then drops the PipedThread" } else { "drops the PipedThread" }));
    }
    let mut pt: Option<PipedThread<usize, usize>> = Some(PipedThread::spawn(fwd_recv, fwd_term, s, move |link: &mut PipedLink<usize, usize>| {
        let _ = &poll2;
        let mut nsent = 0usize;
        for op in ws {
            match op {
                POp::Recv => {
                    let b = tick();
                    match link.recv() {
                        Some(v) => {
                            wlog2.lock().unwrap().push((4, v, b));
                            wlog2.lock().unwrap().push((0, v, tick()));
                        }
                        None => wlog2.lock().unwrap().push((1, 0, tick())),
                    }
                }
                POp::Send => {
                    let v = 100 + nsent;
                    nsent += 1;
                    let b = tick();
                    let ok = link.send(v);
                    wlog2.lock().unwrap().push((2, ok as usize, b));
                }
                POp::Cancel => {
                    let b = tick();
                    let r = link.cancel();
                    wlog2.lock().unwrap().push((3, r as usize, b));
                }
                POp::Panic(i) => {
                    if i == 2 {
                        std::panic::panic_any(String::new());
                    } else if i == 1 {
                        std::panic::panic_any(PANIC_TEXTS[1].to_string());
                    } else {
                        std::panic::panic_any(PANIC_TEXTS[0]);
                    }
                }
                POp::Yield => thread::yield_now(),
            }
        }
    }));
    let mut sent: Vec<usize> = Vec::new();
    for i in 0..main_sends {
        pt.as_mut().unwrap().send(10 + i);
        sent.push(10 + i);
        for _ in 0..main_yields {
            thread::yield_now();
        }
        poll.respond(s, now);
    }
    let mut drop_stamp: Option<usize> = None;
    if echo {
        // wait for all k replies while the worker is still alive; a lost notification deadlocks here
        let want = k;
        loop {
            let have = got.borrow().iter().filter(|e| e.0 == 0).count();
            let term = got.borrow().iter().any(|e| e.0 == 1);
            if have >= want || term {
                break;
            }
            if poll.wait(|_| false) {
                poll.respond(s, now);
            }
        }
    }
    drop_stamp.get_or_insert_with(tick);
    drop(pt.take());
    let drop_end = tick();
    // after the drop the worker is cancelled and must terminate: wait for the termination notice
    loop {
        if got.borrow().iter().any(|e| e.0 == 1) {
            break;
        }
        if poll.wait(|_| false) {
            poll.respond(s, now);
        }
    }
    while poll.respond(s, now) {}
    let got = got.borrow().clone();
    let wl = wlog.lock().unwrap().clone();
    drop(stakker);

    let mut violation: Option<String> = None;
    if trace {
        for e in &wl {
            tr.push(match e.0 {
                0 => format!("worker recv() -> Some({}) at clock {}", e.1, e.2),
                1 => format!("worker recv() -> None at clock {}", e.2),
                2 => format!("worker send() -> {} (began at clock {})", e.1 == 1, e.2),
                4 => format!("worker recv() that will return Some({}) began at clock {}", e.1, e.2),
                _ => format!("worker cancel() -> {} (clock {})", e.1 == 1, e.2),
            });
        }
        tr.push(format!("PipedThread dropped at clock {}..{}", drop_stamp.unwrap(), drop_end));
        for e in &got {
            tr.push(if e.0 == 0 { format!("fwd_recv({}) at clock {}", e.1, e.3) } else { format!("fwd_term({:?}) at clock {}", e.2, e.3) });
        }
    }
    // main -> worker: in order, each once
    let recvd: Vec<usize> = wl.iter().filter(|e| e.0 == 0).map(|e| e.1).collect();
    if recvd.as_slice() != &sent[..recvd.len().min(sent.len())] || recvd.len() > sent.len() {
        violation = Some(format!("worker received {:?} but main sent {:?}: not an in-order exactly-once prefix", recvd, sent));
    }
    // after recv returned None (cancelled): recv stays None, send reports cancellation, cancel() true
    if let Some(p) = wl.iter().position(|e| e.0 == 1) {
        for e in &wl[p + 1..] {
            match e.0 {
                0 => violation = Some("recv() returned a message after it had returned None".into()),
                2 if e.1 == 1 => violation = Some("PipedLink::send returned true after recv() had reported cancellation".into()),
                3 if e.1 == 0 => violation = Some("cancel() returned false after recv() had reported cancellation".into()),
                _ => {}
            }
        }
        if wl[p].2 < drop_stamp.unwrap() {
            violation = Some("recv() returned None before the PipedThread was dropped".into());
        }
    }
    for e in wl.iter().filter(|e| e.2 > drop_end) {
        match e.0 {
            4 => violation = Some(format!("recv() began after the PipedThread drop had returned and still returned Some({})", e.1)),
            2 if e.1 == 1 => violation = Some("PipedLink::send began after the PipedThread drop had returned and still returned true".into()),
            3 if e.1 == 0 => violation = Some("cancel() returned false after the PipedThread drop had returned".into()),
            _ => {}
        }
    }
    // worker -> main: every send forwarded exactly once, in order, before the termination notice
    let nsent_w = wl.iter().filter(|e| e.0 == 2).count();
    let fw: Vec<usize> = got.iter().filter(|e| e.0 == 0).map(|e| e.1).collect();
    let expect: Vec<usize> = (0..nsent_w).map(|i| 100 + i).collect();
    if fw != expect {
        violation = Some(format!("fwd_recv got {:?} but the worker sent {:?}", fw, expect));
    }
    let terms: Vec<&(u8, usize, Option<String>, usize)> = got.iter().filter(|e| e.0 == 1).collect();
    if terms.len() != 1 {
        violation = Some(format!("fwd_term was called {} times", terms.len()));
    } else {
        if got.last().map(|e| e.0) != Some(1) {
            violation = Some("fwd_recv was called after fwd_term".into());
        }
        let expect_panic: Option<String> = wscript.iter().find_map(|o| if let POp::Panic(i) = o { Some(PANIC_TEXTS[*i].to_string()) } else { None });
        // the panic op is only reached if the script got that far; scripts never stop early otherwise
        if terms[0].2 != expect_panic {
            violation = Some(format!("fwd_term got {:?} but the worker {}", terms[0].2, match &expect_panic { Some(t) => format!("panicked with {:?}", t), None => "returned normally".into() }));
        }
    }
    let mut classes: Vec<&'static str> = vec![if echo { "echo-main-waits-for-replies" } else { "free-scripts" }];
    if wscript.iter().any(|o| matches!(o, POp::Panic(_))) {
        classes.push("worker-panics");
    }
    set_outcome(Outcome {
        violation,
        nontrivial: wscript.iter().filter(|o| matches!(o, POp::Recv | POp::Send)).count() >= 2,
        classes,
        trace: tr,
    });
}
